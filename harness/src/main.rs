#![allow(dead_code, unused_mut)]
//! twh — trace harness for the TLA+ model-based verification of mgeisler/textwrap.
//!
//!   twh gen <PROP> <quick|thorough> <seed> <outdir> [--replay <file>]...
//!       drive the real crate (built from /repo's working tree) and write NDJSON trace chunks
//!       <outdir>/t_NNNN.ndjson; print a JSON summary on stdout.
//!   twh replay-event <file> <line-number> <outdir>
//!       re-execute the call recorded in one trace line on the current tree and write a fresh
//!       single-event trace.

mod api;
mod gen;
mod props;
mod props2;
mod rec;
mod steps;

use serde_json::json;
use std::path::PathBuf;
use std::time::{Duration, Instant};

fn main() {
    std::panic::set_hook(Box::new(|_| {})); // panics of the code under test are recorded, not printed
    let args: Vec<String> = std::env::args().collect();
    if args.len() < 2 {
        eprintln!("usage: twh gen <PROP> <tier> <seed> <outdir> [--replay file]... | twh replay-event <file> <line> <outdir>");
        std::process::exit(2);
    }

    // watchdog: a call that runs for more than HANG_SECS is reported as a hang (C04) and the process exits 3
    let hang_secs: u64 = std::env::var("TWH_HANG_SECS").ok().and_then(|s| s.parse().ok()).unwrap_or(20);
    let hang_file: Option<PathBuf> = std::env::var("TWH_HANG_FILE").ok().map(PathBuf::from);
    std::thread::spawn(move || loop {
        std::thread::sleep(Duration::from_millis(200));
        let cur = api::CURRENT.lock().unwrap();
        if let Some((t0, desc)) = cur.as_ref() {
            if t0.elapsed() > Duration::from_secs(hang_secs) {
                let msg = json!({"ev": "hang", "desc": desc, "secs": hang_secs});
                if let Some(f) = &hang_file {
                    let _ = std::fs::write(f, format!("{}\n", msg));
                }
                println!("{}", json!({"hang": desc}));
                std::process::exit(3);
            }
        }
    });

    match args[1].as_str() {
        "gen" => {
            let prop = &args[2];
            let tier = &args[3];
            let seed: u64 = args[4].parse().expect("seed");
            let outdir = PathBuf::from(&args[5]);
            let mut replays = Vec::new();
            let mut i = 6;
            while i < args.len() {
                if args[i] == "--replay" {
                    replays.push(PathBuf::from(&args[i + 1]));
                    i += 2;
                } else {
                    i += 1;
                }
            }
            let t0 = Instant::now();
            let chunk: usize = std::env::var("TWH_CHUNK").ok().and_then(|s| s.parse().ok()).unwrap_or(1500);
            let mut ch = rec::Chunker::new(&outdir, "t", chunk);
            props::generate(&mut ch, prop, tier == "thorough", seed, &replays);
            ch.flush();
            let files: Vec<String> = ch.files.iter().map(|p| p.display().to_string()).collect();
            println!(
                "{}",
                json!({"prop": prop, "tier": tier, "seed": seed, "events": ch.total, "duplicates_dropped": ch.duplicates, "kinds": ch.kinds, "files": files,
                       "samples": ch.samples, "features": if cfg!(feature = "full") { "default" } else { "none" },
                       "gen_wall_s": t0.elapsed().as_secs_f64()})
            );
        }
        "replay-event" => {
            let file = PathBuf::from(&args[2]);
            let line_no: usize = args[3].parse().expect("line");
            let outdir = PathBuf::from(&args[4]);
            let mut ch = rec::Chunker::new(&outdir, "r", 1_000_000);
            props::replay_event(&mut ch, &file, line_no);
            ch.flush();
            let files: Vec<String> = ch.files.iter().map(|p| p.display().to_string()).collect();
            println!("{}", json!({"events": ch.total, "files": files}));
        }
        _ => {
            eprintln!("unknown command");
            std::process::exit(2);
        }
    }
}
