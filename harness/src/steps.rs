//! Step-level recordings through the crate's `verif-hooks` feature for dedent / indent, fill_inplace,
//! wrap_columns, wrap_first_fit and wrap_optimal_fit.  Each call becomes a group of events
//! (`w.begin`, one event per hook site, an end event) that a trace specification extending the
//! corresponding step machine (spec/TraceIndent.tla, TraceInplace.tla, TraceColumns.tla,
//! TraceFirstFit.tla, TraceOptimal.tla) replays action by action.  Nothing is judged here.

use crate::api::*;
use crate::gen::*;
use crate::props2::F;
use crate::rec::{alpha, Chunker, Rng};
use serde_json::{json, Value};

fn strs(ch: &mut Chunker, ls: &[String]) -> Value {
    Value::Array(ls.iter().map(|l| ch.cps(l)).collect())
}

pub fn rec_dedent_steps(ch: &mut Chunker, s: &str) {
    textwrap::verif::install();
    let r = guarded(&|| format!("dedent({:?})", s), || textwrap::dedent(s));
    let evs = textwrap::verif::take();
    let sj = ch.cps(s);
    ch.push_raw(json!({"ev": "w.begin", "kind": "dedent", "s": sj, "p": []}));
    for e in &evs {
        match e.site {
            "dedent.narrow" => ch.push_raw(json!({"ev": "d.narrow", "plen": e.vals[0]})),
            "dedent.margin" => ch.push_raw(json!({"ev": "d.margin", "plen": e.vals[0]})),
            _ => {}
        }
    }
    match r {
        Ok(res) => {
            let ev = json!({"ev": "d.end", "res": ch.cps(&res), "status": "ok"});
            ch.push_raw(ev);
        }
        Err(_) => ch.push_raw(json!({"ev": "d.end", "res": [], "status": "panic"})),
    }
}

pub fn rec_indent_steps(ch: &mut Chunker, s: &str, p: &str) {
    textwrap::verif::install();
    let r = guarded(&|| format!("indent({:?}, {:?})", s, p), || textwrap::indent(s, p));
    let evs = textwrap::verif::take();
    let (sj, pj) = (ch.cps(s), ch.cps(p));
    ch.push_raw(json!({"ev": "w.begin", "kind": "indent", "s": sj, "p": pj}));
    for e in &evs {
        if e.site == "indent.line" {
            ch.push_raw(json!({"ev": "n.line", "idx": e.vals[0], "len": e.vals[1]}));
        }
    }
    match r {
        Ok(res) => {
            let ev = json!({"ev": "n.end", "res": ch.cps(&res), "status": "ok"});
            ch.push_raw(ev);
        }
        Err(_) => ch.push_raw(json!({"ev": "n.end", "res": [], "status": "panic"})),
    }
}

pub fn rec_inplace_steps(ch: &mut Chunker, text: &str, width: usize) {
    let wj = match alpha(width) {
        Some(w) => w,
        None => return,
    };
    textwrap::verif::install();
    let r = guarded(&|| format!("fill_inplace({:?}, {})", text, width), || {
        let mut s = text.to_string();
        textwrap::fill_inplace(&mut s, width);
        s
    });
    let evs = textwrap::verif::take();
    let tj = ch.cps(text);
    ch.push_raw(json!({"ev": "w.begin", "kind": "inplace", "text": tj, "width": wj}));
    for e in &evs {
        if e.site == "fill_inplace.index" {
            ch.push_raw(json!({"ev": "i.line", "offset": e.vals[0], "lo": e.vals[1]}));
        }
    }
    match r {
        Ok(res) => {
            let ev = json!({"ev": "i.end", "res": ch.cps(&res), "status": "ok"});
            ch.push_raw(ev);
        }
        Err(_) => ch.push_raw(json!({"ev": "i.end", "res": [], "status": "panic"})),
    }
}

/// wrap_columns with the options the machine MC_Columns models (ASCII separator, hyphen splitter, first-fit, no indents)
pub fn rec_columns_steps(ch: &mut Chunker, text: &str, cols: usize, width: usize, bw: bool, lg: &str, mg: &str, rg: &str) {
    let mut o = Opts::new(width);
    o.bw = bw;
    o.sep = Sep::Ascii;
    o.splitter = Splitter::Hyphen;
    o.alg = Alg::FF;
    let oj = match o.json(ch) {
        Some(j) => j,
        None => return,
    };
    textwrap::verif::install();
    let r = guarded(&|| format!("wrap_columns({:?}, {}, {}, {:?}, {:?}, {:?})", text, cols, o.describe(), lg, mg, rg), || {
        textwrap::wrap_columns(text, cols, o.to_options(), lg, mg, rg)
    });
    let evs = textwrap::verif::take();
    let (tj, lgj, mgj, rgj) = (ch.cps(text), ch.cps(lg), ch.cps(mg), ch.cps(rg));
    ch.push_raw(json!({"ev": "w.begin", "kind": "columns", "text": tj, "cols": cols, "o": oj, "lg": lgj, "mg": mgj, "rg": rgj}));
    for e in &evs {
        match e.site {
            "wrap_columns.layout" => ch.push_raw(json!({"ev": "c.layout", "inner": e.vals[0], "cw": e.vals[1], "nl": e.vals[2], "lpc": e.vals[3]})),
            "wrap_columns.cell" => ch.push_raw(json!({"ev": "c.cell", "r": e.vals[0], "c": e.vals[1], "len": e.vals[2]})),
            _ => {}
        }
    }
    match r {
        Ok(rows) => {
            let ev = json!({"ev": "c.end", "rows": strs(ch, &rows), "status": "ok"});
            ch.push_raw(ev);
        }
        Err(_) => ch.push_raw(json!({"ev": "c.end", "rows": [], "status": "panic"})),
    }
}

fn frag_json(fs: &[F]) -> Vec<Value> {
    fs.iter().map(|f| json!([f.0 as i64, f.1 as i64, f.2 as i64])).collect()
}
fn lines_json(fs: &[F], lines: &[&[F]]) -> Vec<Value> {
    let base = fs.as_ptr() as usize;
    let sz = std::mem::size_of::<F>();
    lines.iter().map(|l| { let o = (l.as_ptr() as usize - base) / sz; if l.is_empty() { json!([o + 1, o]) } else { json!([o + 1, o + l.len()]) } }).collect()
}

/// small integral fragments only (the machine computes on integers)
pub fn rec_first_fit_steps(ch: &mut Chunker, fs: &[F], lws: &[f64]) {
    textwrap::verif::install();
    let r = guarded(&|| format!("wrap_first_fit({:?}, {:?})", fs, lws), || lines_json(fs, &textwrap::wrap_algorithms::wrap_first_fit(fs, lws)));
    let evs = textwrap::verif::take();
    let lwj: Vec<i64> = lws.iter().map(|&w| w as i64).collect();
    ch.push_raw(json!({"ev": "w.begin", "kind": "ff", "fs": frag_json(fs), "lws": lwj}));
    for e in &evs {
        if e.site == "first_fit.step" {
            ch.push_raw(json!({"ev": "f.step", "idx": e.vals[0], "lw": e.vals[1], "acc": e.vals[2], "brk": e.vals[3], "nl": e.vals[4]}));
        }
    }
    match r {
        Ok(res) => ch.push_raw(json!({"ev": "f.end", "res": res, "status": "ok"})),
        Err(_) => ch.push_raw(json!({"ev": "f.end", "res": [], "status": "panic"})),
    }
}

#[cfg(feature = "full")]
pub fn rec_optimal_steps(ch: &mut Chunker, fs: &[F], lws: &[f64], pen: Pen) {
    textwrap::verif::install();
    let r = guarded(&|| format!("wrap_optimal_fit({:?}, {:?}, {:?})", fs, lws, pen), || {
        textwrap::wrap_algorithms::wrap_optimal_fit(fs, lws, &pen.to_penalties()).map(|l| lines_json(fs, &l)).map_err(|_| ())
    });
    let evs = textwrap::verif::take();
    let lwj: Vec<i64> = lws.iter().map(|&w| w as i64).collect();
    ch.push_raw(json!({"ev": "w.begin", "kind": "opt", "fs": frag_json(fs), "lws": lwj, "pen": pen.json()}));
    for e in &evs {
        match e.site {
            "optimal_fit.column" => ch.push_raw(json!({"ev": "o.col", "j": e.vals[0], "arg": e.vals[1], "cost": e.vals[2]})),
            "optimal_fit.back" => ch.push_raw(json!({"ev": "o.back", "prev": e.vals[0], "pos": e.vals[1]})),
            _ => {}
        }
    }
    match r {
        Ok(Ok(res)) => ch.push_raw(json!({"ev": "o.end", "res": res, "status": "ok"})),
        Ok(Err(())) => ch.push_raw(json!({"ev": "o.end", "res": [], "status": "err"})),
        Err(_) => ch.push_raw(json!({"ev": "o.end", "res": [], "status": "panic"})),
    }
}

// ---------------------------------------------------------------------------------------------
// generators
// ---------------------------------------------------------------------------------------------

/// "DSTEPS": dedent and indent
pub fn gen_indent_steps(ch: &mut Chunker, r: &mut Rng, scale: usize) {
    for s in all_strings(&['a', ' ', '\t', '\n'], 5) {
        rec_dedent_steps(ch, &s);
    }
    for s in all_strings(&['a', ' ', '\n', '\r'], 4) {
        for p in ["", "> ", " ", "\u{a0}"] {
            rec_indent_steps(ch, &s, p);
        }
    }
    for i in 0..300 * scale {
        let s = match i % 3 {
            0 => crate::props2::gen_margin_text(r),
            1 => gen_alpha(r, &['a', ' ', '\t', '\n', '\r', '\u{a0}', '\u{3000}', '\u{4f60}', '\u{2003}'], 14),
            _ => {
                let tc = TextCfg { max_words: 4, max_paras: 4, ansi: Ansi::Any, unicode: true, ctrl: true, crlf: i % 2 == 0 };
                textwrap::indent(&gen_text(r, &tc), *r.pick(&["  ", "\t", " \t", "\u{a0} ", "    "]))
            }
        };
        rec_dedent_steps(ch, &s);
        let p = match i % 4 {
            0 => crate::props2::rand_margin(r),
            1 => format!("{}{}", rand_word(r, 2), crate::props2::rand_margin(r)),
            _ => r.pick(PREFIX_INDENTS).to_string(),
        };
        rec_indent_steps(ch, &s, &p);
    }
}

/// "ISTEPS": fill_inplace
pub fn gen_inplace_steps(ch: &mut Chunker, r: &mut Rng, scale: usize) {
    for t in all_strings(&['a', ' ', '\u{e9}', '\n'], 5) {
        for w in 0..4 {
            if (t.len() + w) % 2 == 0 {
                rec_inplace_steps(ch, &t, w);
            }
        }
    }
    for i in 0..120 * scale {
        let tc = TextCfg { max_words: 7, max_paras: 3, ansi: if i % 5 == 0 { Ansi::Any } else { Ansi::None }, unicode: true, ctrl: i % 4 == 0, crlf: i % 6 == 0 };
        let text = if i % 5 == 1 { gen_alpha(r, ALPHA_ADVERSARIAL, 14) } else { gen_text(r, &tc) };
        for w in widths_for(r, &text, "", "", true).into_iter().take(6) {
            rec_inplace_steps(ch, &text, w);
        }
    }
}

/// "CSTEPS": wrap_columns
pub fn gen_columns_steps(ch: &mut Chunker, r: &mut Rng, scale: usize) {
    let gaps = ["", "|", " | ", "\u{4f60}", "  ", "| ", " |", "\u{e9}"];
    for t in all_strings(&['a', ' ', '\u{ff28}'], 4) {
        for cols in 1..=3 {
            for w in 0..9 {
                if (t.len() + cols + w) % 4 == 0 {
                    let g = (t.len() + cols + w) % 3;
                    rec_columns_steps(ch, &t, cols, w, (t.len() + w) % 2 == 0, ["", "|", "\u{4f60}"][g], ["", "|", "\u{4f60}"][(g + 1) % 3], ["", "|", "\u{4f60}"][(g + 2) % 3]);
                }
            }
        }
    }
    for i in 0..250 * scale {
        let tc = TextCfg { max_words: 8, max_paras: 2, ansi: Ansi::None, unicode: true, ctrl: false, crlf: false };
        let text = if i % 5 == 0 { gen_alpha(r, ALPHA_WRAP, 14) } else { gen_text(r, &tc) };
        for _ in 0..2 {
            let cols = *r.pick(&[1usize, 1, 2, 2, 3, 4, 5, 7]);
            let width = *r.pick(&[0usize, 1, 2, 3, 5, 8, 10, 13, 20, 21, 30, 40, 80]);
            rec_columns_steps(ch, &text, cols, width, r.chance(1, 2), *r.pick(&gaps), *r.pick(&gaps), *r.pick(&gaps));
        }
    }
    rec_columns_steps(ch, "foo", 0, 10, true, "", "", "");
}

fn small_frags(r: &mut Rng, n: usize, maxw: usize, pens: bool) -> Vec<F> {
    (0..n)
        .map(|_| {
            let w = if r.chance(1, 8) { 0 } else { r.range(1, maxw) };
            let ws = *r.pick(&[0usize, 1, 1, 1, 2, 3]);
            let pw = if pens && r.chance(1, 5) { 1 } else { 0 };
            F(w as f64, ws as f64, pw as f64)
        })
        .collect()
}

const STEP_PENS: [Pen; 5] = [
    Pen::DEFAULT,
    Pen { nline: 0, over: 1, frac: 0, short: 3, hyph: 2 },
    Pen { nline: 2, over: 10, frac: 2, short: 1, hyph: 0 },
    Pen { nline: 1, over: 0, frac: 4, short: 25, hyph: 25 },
    Pen { nline: 1000, over: 2500, frac: 4, short: 25, hyph: 25 },
];

fn frag_case(r: &mut Rng) -> (Vec<F>, Vec<f64>) {
    let n = r.range(0, 10);
    let maxw = *r.pick(&[3usize, 5, 8, 12, 20]);
    let fs = small_frags(r, n, maxw, true);
    let nl = *r.pick(&[1usize, 1, 2, 2, 3, 0]);
    let lws: Vec<f64> = (0..nl).map(|_| r.range(0, maxw * 2 + 2) as f64).collect();
    (fs, lws)
}

/// "FFSTEPS": wrap_first_fit on small integral fragments
pub fn gen_ff_steps(ch: &mut Chunker, r: &mut Rng, scale: usize) {
    rec_first_fit_steps(ch, &[], &[]);
    rec_first_fit_steps(ch, &[], &[3.0]);
    rec_first_fit_steps(ch, &[F(2.0, 1.0, 0.0)], &[]);
    for _ in 0..800 * scale {
        let (fs, lws) = frag_case(r);
        rec_first_fit_steps(ch, &fs, &lws);
    }
}

/// "OSTEPS": wrap_optimal_fit on small integral fragments
#[allow(unused_variables)]
pub fn gen_opt_steps(ch: &mut Chunker, r: &mut Rng, scale: usize) {
    #[cfg(feature = "full")]
    {
        rec_optimal_steps(ch, &[], &[], Pen::DEFAULT);
        rec_optimal_steps(ch, &[F(2.0, 1.0, 0.0)], &[], Pen::DEFAULT);
        for i in 0..600 * scale {
            let (fs, lws) = frag_case(r);
            let lws2: Vec<f64> = if lws.len() > 2 { lws[..2].to_vec() } else { lws.clone() };
            rec_optimal_steps(ch, &fs, &lws2, STEP_PENS[i % STEP_PENS.len()]);
            if i % 7 == 0 {
                // three widths: outside C03's precondition, but the step relation (column minima under the
                // path-dependent line number) is the same
                rec_optimal_steps(ch, &fs, &lws, STEP_PENS[(i / 7) % STEP_PENS.len()]);
            }
        }
    }
}

// ---------------------------------------------------------------------------------------------
// word finding, splitting, force-breaking
// ---------------------------------------------------------------------------------------------

pub fn rec_words_steps(ch: &mut Chunker, line: &str, sep: Sep) {
    textwrap::verif::install();
    let r = guarded(&|| format!("find_words({:?}, {:?})", line, sep), || sep.to_separator().find_words(line).collect::<Vec<_>>());
    let evs = textwrap::verif::take();
    let orc = line_oracle_json(ch, line, sep);
    let sj = ch.cps(line);
    ch.push_raw(json!({"ev": "w.begin", "kind": "words", "sep": sep.name(), "s": sj, "orc": orc}));
    for e in &evs {
        match e.site {
            "ascii_space.char" => ch.push_raw(json!({"ev": "a.char", "idx": e.vals[0], "inws": e.vals[1], "start": e.vals[2]})),
            "unicode_break.opportunity" => ch.push_raw(json!({"ev": "x.opp", "idx": e.vals[0], "start": e.vals[1]})),
            "unicode_break.word" => ch.push_raw(json!({"ev": "x.word", "orig": e.vals[0]})),
            _ => {}
        }
    }
    match r {
        Ok(ws) => {
            let ev = json!({"ev": "s.end", "res": words_json(ch, line, &ws), "status": "ok"});
            ch.push_raw(ev);
        }
        Err(_) => ch.push_raw(json!({"ev": "s.end", "res": [], "status": "panic"})),
    }
}

/// split_words and break_apart on one word (`s` has spaces only at its end and is not empty)
pub fn rec_break_steps(ch: &mut Chunker, s: &str, lim: usize, sp: Splitter) {
    let limj = match alpha(lim) {
        Some(v) => v,
        None => return,
    };
    let splitter = sp.to_splitter();
    textwrap::verif::install();
    let r1 = guarded(&|| format!("split_words({:?}, {:?})", s, sp), || {
        textwrap::word_splitters::split_words(vec![textwrap::core::Word::from(s)], &splitter).collect::<Vec<_>>()
    });
    let ev1 = textwrap::verif::take();
    textwrap::verif::install();
    let r2 = guarded(&|| format!("break_apart({:?}, {})", s, lim), || textwrap::core::Word::from(s).break_apart(lim).collect::<Vec<_>>());
    let ev2 = textwrap::verif::take();
    let sj = ch.cps(s);
    ch.push_raw(json!({"ev": "w.begin", "kind": "break", "s": sj, "lim": limj, "splitter": sp.name()}));
    for e in &ev1 {
        match e.site {
            "split_words.piece" => ch.push_raw(json!({"ev": "p.piece", "prev": e.vals[0], "idx": e.vals[1], "nh": e.vals[2]})),
            "split_words.last" => ch.push_raw(json!({"ev": "p.last", "prev": e.vals[0]})),
            _ => {}
        }
    }
    match r1 {
        Ok(ws) => {
            let ev = json!({"ev": "p.end", "res": words_json(ch, s, &ws), "status": "ok"});
            ch.push_raw(ev);
        }
        Err(_) => ch.push_raw(json!({"ev": "p.end", "res": [], "status": "panic"})),
    }
    for e in &ev2 {
        if e.site == "break_apart.char" {
            ch.push_raw(json!({"ev": "b.char", "idx": e.vals[0], "off": e.vals[1], "width": e.vals[2]}));
        }
    }
    match r2 {
        Ok(ws) => {
            let ev = json!({"ev": "b.end", "res": words_json(ch, s, &ws), "status": "ok"});
            ch.push_raw(ev);
        }
        Err(_) => ch.push_raw(json!({"ev": "b.end", "res": [], "status": "panic"})),
    }
}

/// "WSTEPS": find_words of both separators
pub fn gen_words_steps(ch: &mut Chunker, r: &mut Rng, scale: usize) {
    let seps: &[Sep] = if FULL { &[Sep::Ascii, Sep::Uax] } else { &[Sep::Ascii] };
    for s in all_strings(&['a', ' ', '-', '\u{4f60}'], 4) {
        for &sep in seps {
            rec_words_steps(ch, &s, sep);
        }
    }
    for s in all_strings(&['a', ' ', '\u{1b}', '[', 'm'], 4) {
        for &sep in seps {
            rec_words_steps(ch, &s, sep);
        }
    }
    for i in 0..250 * scale {
        let tc = TextCfg { max_words: 6, max_paras: 1, ansi: if i % 3 == 0 { Ansi::Any } else { Ansi::WellFormed }, unicode: true, ctrl: i % 4 == 0, crlf: false };
        let s = match i % 4 {
            0 => gen_alpha(r, ALPHA_ADVERSARIAL, 12),
            1 => format!("{}{} {}", rand_word(r, 5), rand_seq(r), rand_word(r, 4)),
            _ => gen_para(r, &tc),
        };
        for &sep in seps {
            rec_words_steps(ch, &s, sep);
        }
    }
}

/// "BSTEPS": split_words and break_apart on single words
pub fn gen_break_steps(ch: &mut Chunker, r: &mut Rng, scale: usize) {
    let sps = [Splitter::None, Splitter::Hyphen, Splitter::Hyphen, Splitter::Every2, Splitter::Every3];
    for s in all_strings(&['a', '-', '\u{4f60}', '\u{301}'], 4) {
        if s.is_empty() {
            continue;
        }
        for lim in 0..3 {
            rec_break_steps(ch, &s, lim, sps[(s.len() + lim) % sps.len()]);
        }
    }
    for s in all_strings(&['a', '\u{1b}', '[', 'm', '-'], 4) {
        if s.is_empty() {
            continue;
        }
        rec_break_steps(ch, &s, s.len() % 3, Splitter::Hyphen);
    }
    let tc = TextCfg { max_words: 1, max_paras: 1, ansi: Ansi::Any, unicode: true, ctrl: true, crlf: false };
    for i in 0..400 * scale {
        let mut w = match i % 3 {
            0 => format!("{}-{}", rand_word(r, 3), rand_word(r, 3)),
            1 => format!("{}{}{}", rand_word(r, 3), rand_seq(r), rand_word(r, 2)),
            _ => gen_word(r, &tc),
        };
        w.retain(|c| c != ' ' && c != '\n');
        if w.is_empty() {
            continue;
        }
        if i % 5 == 0 {
            w.push_str("  ");
        }
        let mut sp = *r.pick(&sps);
        rec_break_steps(ch, &w, *r.pick(&[0usize, 1, 1, 2, 3, 5, 8, usize::MAX]), sp);
    }
}
