//! Trace recording: NDJSON chunk files with a per-file character table.
//!
//! Nothing in this module (or anywhere in the harness) judges a property: the harness only
//! *records* what the real code did.  All verdicts are computed by TLC from the TLA+
//! specification (spec/Trace.tla).

use serde_json::{json, Value};
use std::collections::BTreeSet;
use std::fs::File;
use std::io::{BufWriter, Write};
use std::path::{Path, PathBuf};

/// TLC integers are 32 bit.  `usize` values are logged through the abstraction of DESIGN 3.3:
/// small values as they are, values near `usize::MAX` as `MAX_USIZE_MODEL - (usize::MAX - x)`.
pub const MAX_USIZE_MODEL: u64 = 1_000_000_000;
pub const BAND: u64 = 100_000_000;

pub fn alpha(x: usize) -> Option<i64> {
    let x = x as u64;
    if x < BAND {
        Some(x as i64)
    } else if x > u64::MAX - BAND {
        Some((MAX_USIZE_MODEL - (u64::MAX - x)) as i64)
    } else {
        None
    }
}

pub fn alpha_inv(v: i64) -> usize {
    let v = v as u64;
    if v < BAND {
        v as usize
    } else {
        (u64::MAX - (MAX_USIZE_MODEL - v)) as usize
    }
}

pub fn char_width_oracle(c: char) -> usize {
    #[cfg(feature = "full")]
    {
        unicode_width::UnicodeWidthChar::width(c).unwrap_or(0)
    }
    #[cfg(not(feature = "full"))]
    {
        if (c as u32) < 0x1100 {
            1
        } else {
            2
        }
    }
}

pub const WMODE: &str = if cfg!(feature = "full") { "uw" } else { "cutoff" };

pub struct Chunker {
    dir: PathBuf,
    prefix: String,
    max_events: usize,
    cur: Vec<String>,
    chars: BTreeSet<u32>,
    pub files: Vec<PathBuf>,
    pub total: usize,
    pub samples: Vec<Value>,
    pub kinds: std::collections::BTreeMap<String, usize>,
    /// hashes of the events pushed so far: an event that was recorded before is dropped, so every
    /// event validated is a distinct case (evidence: distinct_nontrivial is counted over distinct events)
    seen: std::collections::HashSet<u64>,
    pub duplicates: usize,
}

impl Chunker {
    pub fn new(dir: &Path, prefix: &str, max_events: usize) -> Self {
        std::fs::create_dir_all(dir).unwrap();
        Chunker {
            dir: dir.to_path_buf(),
            prefix: prefix.to_string(),
            max_events,
            cur: Vec::new(),
            chars: BTreeSet::new(),
            files: Vec::new(),
            total: 0,
            samples: Vec::new(),
            kinds: Default::default(),
            seen: Default::default(),
            duplicates: 0,
        }
    }

    /// Encode a string as an array of code points and register its characters in the table.
    pub fn cps(&mut self, s: &str) -> Value {
        let mut v = Vec::with_capacity(s.len());
        for c in s.chars() {
            self.chars.insert(c as u32);
            v.push(Value::from(c as u32));
        }
        Value::Array(v)
    }

    pub fn note_char(&mut self, c: char) {
        self.chars.insert(c as u32);
    }

    pub fn push(&mut self, ev: Value) {
        let line = ev.to_string();
        {
            use std::hash::{Hash, Hasher};
            let mut h = std::collections::hash_map::DefaultHasher::new();
            line.hash(&mut h);
            if !self.seen.insert(h.finish()) {
                self.duplicates += 1;
                return;
            }
        }
        if let Some(k) = ev.get("ev").and_then(|k| k.as_str()) {
            *self.kinds.entry(k.to_string()).or_insert(0) += 1;
        }
        if self.samples.len() < 3 || (self.total % 997 == 0 && self.samples.len() < 8) {
            self.samples.push(ev.clone());
        }
        self.cur.push(line);
        self.total += 1;
        if self.cur.len() >= self.max_events {
            self.flush();
        }
    }

    /// push without de-duplication (step events of a group repeat legitimately)
    pub fn push_raw(&mut self, ev: Value) {
        if let Some(k) = ev.get("ev").and_then(|k| k.as_str()) {
            *self.kinds.entry(k.to_string()).or_insert(0) += 1;
            // never split a group: flush only before a w.begin
            if k == "w.begin" && self.cur.len() >= self.max_events {
                self.flush();
            }
        }
        if self.samples.len() < 12 {
            self.samples.push(ev.clone());
        }
        self.cur.push(ev.to_string());
        self.total += 1;
    }

    pub fn flush(&mut self) {
        if self.cur.is_empty() {
            return;
        }
        let path = self.dir.join(format!("{}_{:04}.ndjson", self.prefix, self.files.len()));
        let mut w = BufWriter::new(File::create(&path).unwrap());
        let mut cp = Vec::new();
        let mut wd = Vec::new();
        let mut an = Vec::new();
        let mut ws = Vec::new();
        // always include a few characters the specification names, so the table is never empty
        for c in [' ', '-', '\n'] {
            self.chars.insert(c as u32);
        }
        for &c in &self.chars {
            let ch = char::from_u32(c).unwrap();
            cp.push(c);
            wd.push(char_width_oracle(ch));
            an.push(ch.is_alphanumeric() as u8);
            ws.push(ch.is_whitespace() as u8);
        }
        let head = json!({"ev": "chars", "wmode": WMODE, "cp": cp, "w": wd, "an": an, "ws": ws});
        writeln!(w, "{}", head).unwrap();
        for l in self.cur.drain(..) {
            writeln!(w, "{}", l).unwrap();
        }
        w.flush().unwrap();
        self.chars.clear();
        self.files.push(path);
    }
}

/// Tiny deterministic PRNG (xorshift64*), so traces are reproducible from VERIF_SEED alone.
#[derive(Clone)]
pub struct Rng(pub u64);

impl Rng {
    pub fn new(seed: u64) -> Self {
        let mut r = Rng(seed.wrapping_mul(0x9E3779B97F4A7C15) ^ 0xD1B54A32D192ED03);
        for _ in 0..4 {
            r.next();
        }
        r
    }
    pub fn next(&mut self) -> u64 {
        let mut x = self.0;
        if x == 0 {
            x = 0x2545F4914F6CDD1D;
        }
        x ^= x >> 12;
        x ^= x << 25;
        x ^= x >> 27;
        self.0 = x;
        x.wrapping_mul(0x2545F4914F6CDD1D)
    }
    pub fn below(&mut self, n: usize) -> usize {
        if n == 0 {
            0
        } else {
            (self.next() % n as u64) as usize
        }
    }
    pub fn range(&mut self, lo: usize, hi: usize) -> usize {
        lo + self.below(hi - lo + 1)
    }
    pub fn chance(&mut self, num: usize, den: usize) -> bool {
        self.below(den) < num
    }
    pub fn pick<'a, T>(&mut self, xs: &'a [T]) -> &'a T {
        &xs[self.below(xs.len())]
    }
}
