//! Input generators.  Input *selection* may use anything (it cannot affect a verdict).

use crate::api::{Alg, Opts, Pen, Sep, Splitter};
use crate::rec::Rng;

pub const FULL: bool = cfg!(feature = "full");

// ---------------------------------------------------------------------------------------------
// vocabularies
// ---------------------------------------------------------------------------------------------

pub const ASCII_WORDS: &[&str] = &[
    "a", "b", "I", "to", "be", "or", "not", "foo", "bar", "baz", "x1", "42", "the", "quick", "brown", "hello", "world", "wrapping",
    "textwrap", "A", "Memory", "safety", "without", "garbage", "collection.", "question:", "be,", "(x)", "!", "?", "...", "a.b", "_", "it's",
];
pub const HYPHEN_WORDS: &[&str] = &[
    "foo-bar", "a-b-c", "--x", "x-", "-", "--", "can-be-split", "-foo", "foo--bar", "a-1", "1-2-3", "x-\u{4f60}", "\u{e9}-\u{e9}", "a-", "self-",
    "--foo-bar", "b-!", "jack-in-the-box", "\u{5bbd}-a\u{301}", "a\u{301}-\u{4f60}", "foo\u{2010}bar",
    // non-ASCII numeric characters (alphanumeric but not alphabetic) next to a hyphen
    "route-\u{ff16}\u{ff16}", "x\u{b2}-y", "\u{bd}-a", "\u{663}-\u{664}", "a-\u{2461}",
];
pub const UNI_WORDS: &[&str] = &[
    "\u{4f60}\u{597d}", "\u{4e16}\u{754c}", "\u{4f60}", "caf\u{e9}", "\u{e9}t\u{e9}", "\u{1f602}", "\u{1f602}\u{1f60d}", "e\u{301}", "\u{301}",
    "\u{ff28}", "\u{ff28}\u{ff45}", "a\u{a0}b", "\u{a0}", "a\u{200b}b", "\u{200b}", "hy\u{ad}phen", "\u{ad}", "a\u{2060}b", "\u{1f468}\u{200d}\u{1f9b0}",
    "\u{2049}\u{fe0f}", "\u{3ff}", "\u{2011}", "foo\u{2011}bar", "\u{3000}", "\u{1100}", "\u{10ff}", "\u{10ffff}", "\u{7f}", "\u{85}",
    "ab\u{7f}", "\u{7f}x", "aa\u{a0}", "\u{3000}b", "c\u{2003}", "\u{a0}d",
];
/// otherwise plain words containing characters that take no column although they take a byte / a char (DEL, C1, ZWSP,
/// soft hyphen, word joiner, combining mark, variation selector): the place where "display width" and "length" differ
pub const ZW_WORDS: &[&str] = &[
    "ab\u{7f}", "\u{7f}x", "a\u{7f}\u{7f}b", "x\u{9f}y", "a\u{200b}b", "hy\u{ad}phen", "e\u{301}e", "\u{7f}", "a\u{80}", "\u{2060}z", "x\u{fe0f}", "\u{7f}\u{7f}",
    "foo\u{7f}bar", "q\u{300}\u{301}",
    // display width = number of chars although not every char is one column wide (a wide and a zero-width character
    // cancel out), unevenly distributed around a hyphen split point
    "\u{5bbd}-a\u{301}", "\u{5bbd}\u{5bbd}-a\u{301}\u{301}b", "a\u{301}-\u{4f60}", "\u{7f}x-\u{4f60}", "\u{4f60}\u{7f}-ab",
    // a zero-width character in the *last* piece of a force-broken word
    "abcde\u{7f}", "abcd\u{7f}e", "wxyz\u{200b}", "abcdefgh\u{301}",
];
pub const CTRL_WORDS: &[&str] = &["\t", "a\tb", "\r", "a\rb", "\u{0}", "\u{b}", "\u{c}", "\u{2028}", "a\u{7}", "ab\u{7f}", "\u{7f}x", "a\u{1}b", "x\u{9f}"];
pub const PUNCT_WORDS: &[&str] = &["[", "]", "( a )", "[ foo ]", "bar !", "\u{ab}", "\u{bb}", "a/b", "http://x.y/z", "$1", "50%", "a,b", "\"q\"", ",", ".", ";", ":", "'", "x ,"];

pub const ANSI_WF: &[&str] = &[
    "\u{1b}[31m", "\u{1b}[0m", "\u{1b}[1;32m", "\u{1b}[m", "\u{1b}[38;5;196m", "\u{1b}[K", "\u{1b}[[",
    "\u{1b}]8;;http://example.com\u{1b}\\", "\u{1b}]8;;\u{1b}\\", "\u{1b}]8;;x\u{7}", "\u{1b}]0;title\u{7}", "\u{1b}]\u{7}", "\u{1b}]a b\u{1b}\\",
    "\u{1b}]8;;http://foo-bar.example/a-b\u{1b}\\", "\u{1b}]8;;x-y\u{7}",
    "\u{1b}[3 m", "\u{1b}]\u{4f60}\u{7}", "\u{1b}[\u{4f60}m",
    // colon sub-parameters (ISO 8613-6 colours, curly underline) and private-use parameter bytes
    "\u{1b}[38:5:208m", "\u{1b}[4:3m", "\u{1b}[?25l", "\u{1b}[>0c", "\u{1b}[1$r",
];
/// SGR / OSC-8 sequences without spaces or hyphens inside (for C13, where sequences are "attached to words")
pub const ANSI_COLOUR: &[&str] = &[
    "\u{1b}[31m", "\u{1b}[0m", "\u{1b}[1;32m", "\u{1b}[m", "\u{1b}[38;5;196m", "\u{1b}]8;;http://example.com\u{1b}\\", "\u{1b}]8;;\u{1b}\\",
    "\u{1b}]8;;x\u{7}", "\u{1b}[38:5:208m", "\u{1b}[4:3m", "\u{1b}[38:2::10:20:30m",
];
pub const ANSI_MALFORMED: &[&str] = &[
    "\u{1b}", "\u{1b}[", "\u{1b}[3", "\u{1b}]8;;x", "\u{1b}X", "\u{1b}\u{4f60}", "\u{1b}\u{1b}", "\u{1b} ", "\u{1b}]", "\u{1b}[\u{1b}[m", "\u{1b}]\u{1b}", "\u{1b}\n",
    "\u{1b}]x\u{1b}", "\u{1b}-", "\u{1b}!\u{3ff}",
];

pub const INDENTS: &[&str] = &["", "", "> ", "    ", "\u{4f60}", "-", "//", ">>> ", "* ", "  ", "\u{1b}[1m>\u{1b}[0m ", "\t", "# ", "!!!"];
pub const PREFIX_INDENTS: &[&str] = &["", "", "> ", "  ", "- ", "* ", "    ", "// ", "# ", ">> ", "+", " * ", "--", "/"];

/// every character for which char::is_whitespace() holds
pub const UNICODE_WS: &[char] = &[
    '\t', '\u{b}', '\u{c}', ' ', '\u{85}', '\u{a0}', '\u{1680}', '\u{2000}', '\u{2001}', '\u{2002}', '\u{2003}', '\u{2004}', '\u{2005}', '\u{2006}',
    '\u{2007}', '\u{2008}', '\u{2009}', '\u{200a}', '\u{2028}', '\u{2029}', '\u{202f}', '\u{205f}', '\u{3000}',
];

/// A random scalar value from ranges that matter for wrapping (Latin-1 and extensions, Greek / Cyrillic, general
/// punctuation, CJK, kana, Hangul, emoji, symbols): code that computes on code points or UTF-8 bytes instead of
/// characters goes wrong only for *some* of them, so the vocabulary must not be a fixed handful.
pub fn rand_cp(r: &mut Rng) -> char {
    let ranges: &[(u32, u32)] = &[
        (0x00A1, 0x024F), (0x00A1, 0x024F), (0x0370, 0x04FF), (0x2010, 0x2027), (0x2030, 0x205E), (0x2190, 0x21FF), (0x2460, 0x24FF), (0x3041, 0x30FF),
        (0x4E00, 0x9FFF), (0x4E00, 0x9FFF), (0x4E00, 0x9FFF), (0xAC00, 0xD7A3), (0xFF01, 0xFF5E), (0x1F300, 0x1F6FF), (0x1F300, 0x1F6FF), (0x1F900, 0x1F9FF),
        (0x0300, 0x036F), (0x0021, 0x007E),
    ];
    loop {
        let (lo, hi) = *r.pick(ranges);
        if let Some(c) = char::from_u32(lo + r.below((hi - lo + 1) as usize) as u32) {
            if c != '\u{1b}' {
                return c;
            }
        }
    }
}

pub fn rand_word(r: &mut Rng, maxlen: usize) -> String {
    let n = r.range(1, maxlen);
    (0..n).map(|_| rand_cp(r)).collect()
}

/// a well-formed OSC or CSI sequence with a random payload
pub fn rand_seq(r: &mut Rng) -> String {
    if r.chance(2, 3) {
        let payload: String = (0..r.below(7)).map(|_| { let c = rand_cp(r); if c == '\u{7}' || c == '\\' { 'x' } else { c } }).collect();
        format!("\u{1b}]{}{}", payload, if r.chance(1, 2) { "\u{7}" } else { "\u{1b}\\" })
    } else {
        // CSI: parameter bytes must not be final bytes (0x40..0x7e)
        let payload: String = (0..r.below(5)).map(|_| *r.pick(&['0', '1', ';', '3', '?', ' ', '\u{e9}', '\u{4e07}', '\u{107}', ':', ':', '<', '=', '>', '!', '/', '$', '"'])).collect();
        format!("\u{1b}[{}{}", payload, *r.pick(&['m', 'K', '~', '@', 'H']))
    }
}

#[derive(Clone, Copy, PartialEq, Eq)]
pub enum Ansi {
    None,
    WellFormed,
    Any,
}

#[derive(Clone, Copy)]
pub struct TextCfg {
    pub max_words: usize,
    pub max_paras: usize,
    pub ansi: Ansi,
    pub unicode: bool,
    pub ctrl: bool,
    pub crlf: bool,
}

pub fn gen_word(r: &mut Rng, c: &TextCfg) -> String {
    let k = r.below(100);
    let mut w = if k < 45 {
        r.pick(ASCII_WORDS).to_string()
    } else if k < 60 {
        r.pick(HYPHEN_WORDS).to_string()
    } else if k < 72 && c.unicode {
        r.pick(UNI_WORDS).to_string()
    } else if k < 80 && c.unicode {
        rand_word(r, 5)
    } else if k < 85 && c.ctrl {
        r.pick(CTRL_WORDS).to_string()
    } else if k < 92 {
        r.pick(PUNCT_WORDS).to_string()
    } else {
        // a long word
        let n = r.range(6, 14);
        (0..n).map(|i| (b'a' + ((i * 7 + r.below(3)) % 26) as u8) as char).collect()
    };
    match c.ansi {
        Ansi::None => {}
        Ansi::WellFormed | Ansi::Any => {
            if r.chance(1, 4) {
                let rs = rand_seq(r);
                let seq: &str = if c.ansi == Ansi::Any && r.chance(1, 4) { *r.pick(ANSI_MALFORMED) } else if r.chance(1, 4) { &rs } else { *r.pick(ANSI_WF) };
                let chars: Vec<char> = w.chars().collect();
                let pos = r.below(chars.len() + 1);
                let mut s: String = chars[..pos].iter().collect();
                s.push_str(seq);
                s.extend(chars[pos..].iter());
                if r.chance(1, 2) {
                    s.push_str("\u{1b}[0m");
                }
                w = s;
            }
        }
    }
    w
}

pub fn gen_para(r: &mut Rng, c: &TextCfg) -> String {
    let n = r.below(c.max_words + 1);
    let mut s = String::new();
    if r.chance(1, 8) {
        for _ in 0..r.range(1, 3) {
            s.push(' ');
        }
    }
    for i in 0..n {
        if i > 0 {
            let k = r.below(10);
            let sp = if k < 7 { 1 } else if k < 9 { 2 } else { 3 };
            for _ in 0..sp {
                s.push(' ');
            }
        }
        s.push_str(&gen_word(r, c));
    }
    if r.chance(1, 8) {
        for _ in 0..r.range(1, 3) {
            s.push(' ');
        }
    }
    s
}

pub fn gen_text(r: &mut Rng, c: &TextCfg) -> String {
    let np = if c.max_paras <= 1 { 1 } else { 1 + r.below(c.max_paras) };
    let mut s = String::new();
    for i in 0..np {
        if i > 0 {
            if c.crlf && !r.chance(1, 10) {
                s.push_str("\r\n");
            } else {
                s.push('\n');
            }
        }
        if !(np > 1 && r.chance(1, 6)) {
            s.push_str(&gen_para(r, c));
        }
    }
    if r.chance(1, 10) {
        s.push_str(if c.crlf { "\r\n" } else { "\n" });
    }
    s
}

/// random string over a small alphabet (finds corner cases the vocabulary misses)
pub fn gen_alpha(r: &mut Rng, alphabet: &[char], max_len: usize) -> String {
    let n = r.below(max_len + 1);
    (0..n).map(|_| *r.pick(alphabet)).collect()
}

pub const ALPHA_WRAP: &[char] = &['a', 'b', ' ', ' ', '-', '\u{4f60}', '\u{e9}', '\n', '\u{301}', '1'];
pub const ALPHA_ANSI: &[char] = &['a', ' ', '\u{1b}', '[', ']', 'm', ';', '\u{7}', '\\', '\u{4f60}', '-', '3'];
pub const ALPHA_ADVERSARIAL: &[char] = &[
    'a', ' ', ' ', '-', '\u{1b}', '[', ']', 'm', '\u{7}', '\\', '\r', '\n', '\u{a0}', '\u{200b}', '\u{ad}', '\u{301}', '\u{1f602}', '\u{4f60}', '\u{e9}', '\t',
    '\u{3ff}', '!', '\u{ff28}', '\u{2060}', '\u{0}', '\u{10ffff}', '>', '#', '/', '*', '+',
];

/// all strings of length <= n over the alphabet, in length-lexicographic order
pub fn all_strings(alphabet: &[char], n: usize) -> Vec<String> {
    let mut out = vec![String::new()];
    let mut layer = vec![String::new()];
    for _ in 0..n {
        let mut next = Vec::with_capacity(layer.len() * alphabet.len());
        for s in &layer {
            for &c in alphabet {
                let mut t = s.clone();
                t.push(c);
                next.push(t);
            }
        }
        out.extend(next.iter().cloned());
        layer = next;
    }
    out
}

// ---------------------------------------------------------------------------------------------
// widths and options
// ---------------------------------------------------------------------------------------------

pub fn display_width_oracle(s: &str) -> usize {
    crate::api::strip_own(s).chars().map(crate::rec::char_width_oracle).sum()
}

/// threshold-directed widths for a text (DESIGN 2.4a item 4)
pub fn widths_for(r: &mut Rng, text: &str, ii: &str, si: &str, with_huge: bool) -> Vec<usize> {
    let mut v: Vec<usize> = vec![0, 1, 2, 3];
    let mut around = |x: usize, v: &mut Vec<usize>| {
        v.push(x.saturating_sub(1));
        v.push(x);
        v.push(x + 1);
    };
    let mut maxw = 0;
    let mut maxdw = 0;
    let mut maxb = 0;
    for p in text.split('\n') {
        maxdw = maxdw.max(display_width_oracle(p));
        maxb = maxb.max(p.len());
        for w in p.split(' ') {
            maxw = maxw.max(display_width_oracle(w));
        }
    }
    let iw = display_width_oracle(ii);
    let sw = display_width_oracle(si);
    for x in [maxdw, maxb, maxw, maxw + iw, maxw + sw, maxdw + iw, maxdw + sw, maxdw / 2, maxdw / 3] {
        around(x, &mut v);
    }
    for _ in 0..3 {
        v.push(r.range(2, 30));
    }
    if with_huge {
        v.push(usize::MAX);
        v.push(usize::MAX - 1);
    }
    v.sort();
    v.dedup();
    v
}

pub fn gen_pen(r: &mut Rng) -> Pen {
    if r.chance(1, 2) {
        return Pen::DEFAULT;
    }
    let small = [0usize, 1, 2, 5, 10, 25, 100, 1000, 2500];
    Pen { nline: *r.pick(&small), over: *r.pick(&small), frac: *r.pick(&[0usize, 1, 2, 3, 4, 7]), short: *r.pick(&small), hyph: *r.pick(&small) }
}

pub struct OptCfg {
    pub indents: bool,
    pub custom_splitters: bool,
    pub algs: &'static [u8], // 0 = ff, 1 = opt default, 2 = opt random penalties
    pub crlf: bool,
}

pub fn gen_opts(r: &mut Rng, c: &OptCfg, width: usize) -> Opts {
    let mut o = Opts::new(width);
    if c.indents && r.chance(2, 3) {
        o.ii = r.pick(INDENTS).to_string();
        o.si = if r.chance(1, 3) { o.ii.clone() } else { r.pick(INDENTS).to_string() };
    }
    o.bw = r.chance(1, 2);
    o.sep = if FULL && r.chance(1, 2) { Sep::Uax } else { Sep::Ascii };
    o.splitter = match r.below(if c.custom_splitters { 9 } else { 6 }) {
        0 | 1 => Splitter::None,
        2..=5 => Splitter::Hyphen,
        6 => Splitter::Every2,
        7 => Splitter::Every3,
        _ => Splitter::Half,
    };
    let a = if FULL { *r.pick(c.algs) } else { 0 };
    o.alg = match a {
        0 => Alg::FF,
        1 => Alg::Opt(Pen::DEFAULT),
        _ => Alg::Opt(gen_pen(r)),
    };
    o.crlf = c.crlf && r.chance(1, 2);
    o
}
