//! Per-property event generation.

use crate::api::*;
use crate::gen::*;
use crate::rec::{alpha_inv, Chunker, Rng};
use serde_json::Value;
use std::path::{Path, PathBuf};

fn cps_to_string(v: &Value) -> String {
    v.as_array().map(|a| a.iter().map(|c| char::from_u32(c.as_u64().unwrap() as u32).unwrap()).collect()).unwrap_or_default()
}

pub fn opts_from_json(o: &Value) -> Opts {
    let pen = &o["pen"];
    let p = Pen {
        nline: pen["nline"].as_u64().unwrap_or(1000) as usize,
        over: pen["over"].as_u64().unwrap_or(2500) as usize,
        frac: pen["frac"].as_u64().unwrap_or(4) as usize,
        short: pen["short"].as_u64().unwrap_or(25) as usize,
        hyph: pen["hyph"].as_u64().unwrap_or(25) as usize,
    };
    Opts {
        width: alpha_inv(o["width"].as_i64().unwrap()),
        ii: cps_to_string(&o["ii"]),
        si: cps_to_string(&o["si"]),
        bw: o["bw"].as_bool().unwrap_or(true),
        sep: if o["sep"] == "uax" { Sep::Uax } else if o["sep"] == "custom" { Sep::Custom } else { Sep::Ascii },
        splitter: match o["splitter"].as_str().unwrap_or("none") {
            "hyphen" => Splitter::Hyphen,
            "every2" => Splitter::Every2,
            "every3" => Splitter::Every3,
            "half" => Splitter::Half,
            _ => Splitter::None,
        },
        alg: if o["alg"] == "opt" { Alg::Opt(p) } else { Alg::FF },
        crlf: o["crlf"].as_bool().unwrap_or(false),
    }
}

fn supported(o: &Opts) -> bool {
    FULL || (o.sep != Sep::Uax && o.alg == Alg::FF)
}

/// Execute one input record (from a TLC REPLAY line, or the input part of a recorded event).
pub fn run_input(ch: &mut Chunker, v: &Value) {
    let k = v.get("k").or_else(|| v.get("ev")).and_then(|k| k.as_str()).unwrap_or("");
    match k {
        "dw" => rec_dw(ch, &cps_to_string(&v["s"])),
        "words" => {
            let sep = if v["sep"] == "uax" { Sep::Uax } else { Sep::Ascii };
            if FULL || sep == Sep::Ascii {
                rec_words(ch, &cps_to_string(&v["s"]), sep)
            }
        }
        "split" => {
            let sp = match v["splitter"].as_str().unwrap_or("none") {
                "hyphen" => Splitter::Hyphen,
                "every2" => Splitter::Every2,
                "every3" => Splitter::Every3,
                "half" => Splitter::Half,
                _ => Splitter::None,
            };
            let pre = match v["pre"].as_str().unwrap_or("none") {
                "hyphen" => Splitter::Hyphen,
                "every2" => Splitter::Every2,
                "every3" => Splitter::Every3,
                "half" => Splitter::Half,
                _ => Splitter::None,
            };
            rec_split_pre(ch, &cps_to_string(&v["s"]), sp, pre)
        }
        "break" => rec_break(ch, &cps_to_string(&v["s"]), alpha_inv(v["lim"].as_i64().unwrap()), v["kind"] == "apart"),
        "wrap" => {
            let o = opts_from_json(&v["o"]);
            let text = cps_to_string(&v["text"]);
            if o.sep == Sep::Custom {
                // cuts: per paragraph, 1-based character positions of word starts; identical paragraphs must agree
                let paras = split_ending(&text, o.crlf);
                let mut map: std::collections::HashMap<String, Vec<usize>> = Default::default();
                let mut consistent = true;
                for (k, p) in paras.iter().enumerate() {
                    let cuts: Vec<usize> = v["cuts"][k].as_array().map(|a| a.iter().filter_map(|c| c.as_u64()).map(|c| {
                        p.char_indices().nth(c as usize - 1).map(|(b, _)| b).unwrap_or(p.len())
                    }).collect()).unwrap_or_default();
                    if let Some(old) = map.get(*p) {
                        consistent &= *old == cuts;
                    }
                    map.insert(p.to_string(), cuts);
                }
                if consistent {
                    CUTMAP.with(|m| *m.borrow_mut() = map);
                    rec_wrap(ch, &text, &o, "custom");
                    CUTMAP.with(|m| m.borrow_mut().clear());
                }
            } else if supported(&o) {
                rec_wrap(ch, &text, &o, "replay");
            }
        }
        "fill" => {
            let o = opts_from_json(&v["o"]);
            if supported(&o) {
                rec_fill(ch, &cps_to_string(&v["text"]), &o, "replay");
            }
        }
        _ => crate::props2::run_input2(ch, k, v),
    }
}

pub fn replay_event(ch: &mut Chunker, file: &Path, line_no: usize) {
    let txt = std::fs::read_to_string(file).expect("replay file");
    let line = txt.lines().nth(line_no.saturating_sub(1)).expect("line number");
    let v: Value = serde_json::from_str(line).expect("json");
    run_input(ch, &v);
}

fn run_replays(ch: &mut Chunker, replays: &[PathBuf]) {
    for f in replays {
        if let Ok(txt) = std::fs::read_to_string(f) {
            for l in txt.lines() {
                if let Ok(v) = serde_json::from_str::<Value>(l) {
                    run_input(ch, &v);
                }
            }
        }
    }
}

const TC_PLAIN: TextCfg = TextCfg { max_words: 7, max_paras: 1, ansi: Ansi::None, unicode: true, ctrl: false, crlf: false };

pub fn generate(ch: &mut Chunker, prop: &str, thorough: bool, seed: u64, replays: &[PathBuf]) {
    let mut r = Rng::new(seed ^ prop.bytes().fold(0u64, |a, b| a.wrapping_mul(131).wrapping_add(b as u64)));
    run_replays(ch, replays);
    let scale = if thorough { 12 } else { 1 };
    match prop {
        "STEPS" => gen_steps(ch, &mut r, scale),
        "USTEPS" => gen_unfill_steps(ch, &mut r, scale),
        "DSTEPS" => crate::steps::gen_indent_steps(ch, &mut r, scale),
        "ISTEPS" => crate::steps::gen_inplace_steps(ch, &mut r, scale),
        "CSTEPS" => crate::steps::gen_columns_steps(ch, &mut r, scale),
        "FFSTEPS" => crate::steps::gen_ff_steps(ch, &mut r, scale),
        "OSTEPS" => crate::steps::gen_opt_steps(ch, &mut r, scale),
        "WSTEPS" => crate::steps::gen_words_steps(ch, &mut r, scale),
        "BSTEPS" => crate::steps::gen_break_steps(ch, &mut r, scale),
        "C10" => gen_c10(ch, &mut r, thorough, scale),
        "C11" => gen_c11(ch, &mut r, thorough, scale),
        "C12" => gen_c12(ch, &mut r, thorough, scale),
        "C01" => gen_wrap_family(ch, &mut r, "C01", thorough, scale),
        "C02" => gen_wrap_family(ch, &mut r, "C02", thorough, scale),
        "C07" => {
            crate::props2::gen_frags(ch, &mut r, "C07", thorough, scale);
            gen_wrap_family(ch, &mut r, "C07", thorough, scale);
        }
        "C08" => {
            gen_wrap_family(ch, &mut r, "C08", thorough, scale);
            crate::props2::gen_c08_pairs(ch, &mut r, scale);
            crate::props2::gen_optseqs(ch, &mut r, scale);
        }
        _ => crate::props2::generate2(ch, prop, &mut r, thorough, scale),
    }
}

// ---------------------------------------------------------------------------------------------

fn gen_c10(ch: &mut Chunker, r: &mut Rng, thorough: bool, scale: usize) {
    // (a) per-scalar sweep: BMP always; the astral planes sampled (quick) or complete (thorough)
    crate::props2::scalar_sweep(ch, r, thorough);
    // (b) strings over the mixed alphabet, well-formed and malformed
    for s in all_strings(&['a', '\u{1b}', '[', ']', 'm', '\u{7}', '\\', '\u{4f60}'], if thorough { 5 } else { 4 }) {
        rec_dw(ch, &s);
    }
    let cfgs = [
        TextCfg { ansi: Ansi::WellFormed, ..TC_PLAIN },
        TextCfg { ansi: Ansi::Any, ctrl: true, ..TC_PLAIN },
        TC_PLAIN,
    ];
    for i in 0..3000 * scale {
        let s = if i % 3 == 0 { gen_alpha(r, ALPHA_ANSI, 14) } else { gen_text(r, &cfgs[i % 3]) };
        rec_dw(ch, &s);
    }
    // (c) concatenation and insertion relations
    for _ in 0..1500 * scale {
        crate::props2::rec_dw_rel(ch, r);
    }
    // (d) sequences with random payloads between random words (code-point / byte arithmetic in the skipper)
    for _ in 0..2500 * scale {
        let mut s = String::new();
        for _ in 0..r.range(1, 3) {
            s.push_str(&rand_word(r, 3));
            s.push_str(&rand_seq(r));
        }
        s.push_str(&rand_word(r, 3));
        rec_dw(ch, &s);
    }
    // (e) ESC inside sequences: every string over {ESC, ']', '\\', 'a'} (an OSC payload may contain ESCs; the sequence
    //     still ends at the first BEL or "ESC \\"), and runs of ESC before a terminator / a final byte
    for s in all_strings(&['\u{1b}', ']', '\\', 'a', '\u{e9}'], if thorough { 7 } else { 6 }) {
        rec_dw(ch, &s);
    }
    // an ESC inside an OSC payload that is *not* followed by a backslash at once: multi-byte characters in between
    for mb in ["\u{e9}", "\u{4f60}", "\u{e9}\u{e9}", "\u{301}", "x", "\u{1f600}"] {
        for pre in ["", "0;x", "\u{e9}"] {
            for v in ["y", "\u{4f60}", ""] {
                for term in ["\u{7}", "\u{1b}\\"] {
                    rec_dw(ch, &format!("a\u{1b}]{}\u{1b}{}\\{}{}z", pre, mb, v, term));
                }
            }
        }
    }
    for k in 0..6 {
        let run = "\u{1b}".repeat(k);
        for (head, tail) in [("\u{1b}]", "\u{1b}\\"), ("\u{1b}]0;t", "\u{1b}\\"), ("\u{1b}]8;;x", "\u{7}"), ("\u{1b}[", "m"), ("\u{1b}[3", "\u{1b}[m")] {
            for after in ["hello", "\u{4f60}", "", "\\x"] {
                rec_dw(ch, &format!("a{}{}{}{}", head, run, tail, after));
            }
        }
    }
}

fn gen_c11(ch: &mut Chunker, r: &mut Rng, thorough: bool, scale: usize) {
    let seps: &[Sep] = if FULL { &[Sep::Ascii, Sep::Uax] } else { &[Sep::Ascii] };
    for s in all_strings(&['a', ' ', '-', '\u{ad}', '\u{4f60}'], if thorough { 6 } else { 5 }) {
        for &sep in seps {
            rec_words(ch, &s, sep);
        }
    }
    for s in all_strings(&['a', ' ', '\u{1b}', '[', 'm', '\u{4f60}'], if thorough { 6 } else { 5 }) {
        for &sep in seps {
            rec_words(ch, &s, sep);
        }
    }
    // unusual but terminated OSC payloads (runs of ESC before the terminator) between words
    for k in 0..5 {
        let run = "\u{1b}".repeat(k);
        for term in ["\u{1b}\\", "\u{7}"] {
            for s in [format!("\u{1b}]0;t{}{}foo bar", run, term), format!("ab \u{1b}]8;;u{}{}cd ef", run, term), format!("x\u{1b}]{}{} y", run, term)] {
                for &sep in seps {
                    rec_words(ch, &s, sep);
                }
            }
        }
    }
    // plain prose: letters, spaces and ASCII punctuation (UAX #14 forbids a break before . , ; : even after spaces)
    for s in all_strings(&['a', ' ', '.', ',', ';', '\''], if thorough { 5 } else { 4 }) {
        for &sep in seps {
            rec_words(ch, &s, sep);
        }
    }
    for _ in 0..300 * scale {
        let n = r.range(2, 6);
        let mut s = String::new();
        for k in 0..n {
            if k > 0 {
                s.push_str(*r.pick(&[" ", " ", "  ", " , ", " . ", " ; ", " : ", ", ", ". ", " ' ", " \" ", " ! ", " ? ", " ) ", " ( "]));
            }
            s.push_str(*r.pick(ASCII_WORDS));
        }
        for &sep in seps {
            rec_words(ch, &s, sep);
        }
    }
    // random scalar values without spaces between them (CJK, emoji, Latin extensions, punctuation), optionally with a sequence
    for i in 0..2500 * scale {
        let mut s = rand_word(r, 6);
        if i % 4 == 0 {
            s.push_str(&rand_seq(r));
            s.push_str(&rand_word(r, 3));
        }
        if i % 5 == 0 {
            s.push(' ');
            s.push_str(&rand_word(r, 4));
        }
        for &sep in seps {
            rec_words(ch, &s, sep);
        }
    }
    let cfgs = [
        TextCfg { ansi: Ansi::WellFormed, ctrl: true, ..TC_PLAIN },
        TextCfg { ansi: Ansi::Any, ctrl: true, ..TC_PLAIN },
        TextCfg { ctrl: true, ..TC_PLAIN },
    ];
    for i in 0..2500 * scale {
        let mut s = match i % 4 {
            0 => gen_alpha(r, ALPHA_ADVERSARIAL, 16),
            k => gen_para(r, &cfgs[k - 1]),
        };
        if r.chance(1, 6) {
            s.push(*r.pick(&['-', '\u{ad}', ' ', '\u{1b}']));
        }
        for &sep in seps {
            rec_words(ch, &s, sep);
        }
    }
}

fn gen_c12(ch: &mut Chunker, r: &mut Rng, thorough: bool, scale: usize) {
    let n = if thorough { 6 } else { 4 };
    for s in all_strings(&['a', '1', '-', '\u{4f60}', '!', ' '], n) {
        for sp in [Splitter::None, Splitter::Hyphen, Splitter::Every2] {
            rec_split(ch, &s, sp);
        }
        // input words that already carry a penalty (pieces of an earlier split)
        rec_split_pre(ch, &s, Splitter::Hyphen, Splitter::Every2);
        rec_split_pre(ch, &s, Splitter::None, Splitter::Every3);
    }
    // alphanumeric is not alphabetic: digits of other scripts, superscripts, fractions around hyphens
    for s in all_strings(&['a', '-', '\u{ff16}', '\u{b2}', '('], 4) {
        rec_split(ch, &s, Splitter::Hyphen);
    }
    for s in all_strings(&['a', '\u{4f60}', '\u{301}', '\u{1b}', '[', 'm'], n) {
        for lim in 0..4 {
            rec_break(ch, &s, lim, true);
        }
        rec_break(ch, &s, 1, false);
        rec_break(ch, &s, 3, false);
    }
    // unusual but terminated OSC payloads inside a word: runs of ESC before the terminator, ESC + multi-byte + backslash
    for k in 0..5 {
        let run = "\u{1b}".repeat(k);
        for payload in [format!("0;t{}", run), format!("{}\u{e9}\\x", run), format!("8;;u-v{}", run)] {
            for term in ["\u{1b}\\", "\u{7}"] {
                for tail in ["abcdef", "\u{4f60}\u{597d}", "a-b", ""] {
                    let w = format!("x\u{1b}]{}{}{}", payload, term, tail);
                    for lim in 0..4 {
                        rec_break(ch, &w, lim, lim % 2 == 0);
                    }
                    rec_split(ch, &w, Splitter::Hyphen);
                    rec_split(ch, &w, Splitter::Every2);
                }
            }
        }
    }
    let cfgs = [TextCfg { ansi: Ansi::WellFormed, ..TC_PLAIN }, TextCfg { ansi: Ansi::Any, ctrl: true, ..TC_PLAIN }, TC_PLAIN];
    for i in 0..1500 * scale {
        let s = match i % 4 {
            0 => gen_alpha(r, ALPHA_ADVERSARIAL, 14),
            k => gen_para(r, &cfgs[k - 1]),
        };
        rec_split(ch, &s, *r.pick(&[Splitter::None, Splitter::Hyphen, Splitter::Hyphen, Splitter::Every2, Splitter::Every3]));
        if !s.contains('\u{1b}') {
            rec_split_pre(ch, &s, *r.pick(&[Splitter::None, Splitter::Hyphen, Splitter::Every2]), *r.pick(&[Splitter::Every2, Splitter::Every3]));
        }
        let lim = *r.pick(&[0usize, 1, 1, 2, 2, 3, 4, 5, 8, usize::MAX]);
        rec_break(ch, &s, lim, r.chance(1, 2));
    }
}

/// wrap / fill events for the properties judged on plain `wrap` calls
pub fn gen_wrap_family(ch: &mut Chunker, r: &mut Rng, prop: &str, _thorough: bool, scale: usize) {
    let (ansi, custom, algs): (Ansi, bool, &'static [u8]) = match prop {
        "C01" => (Ansi::Any, true, &[0, 0, 1, 2]),
        "C02" => (Ansi::WellFormed, false, &[0]),
        "C07" => (Ansi::WellFormed, true, &[0]),
        "C08" => (Ansi::Any, true, &[0, 1, 2]),
        "C03" => (Ansi::WellFormed, false, &[1, 2]),
        "C05" => (Ansi::WellFormed, true, &[0, 1]),
        _ => (Ansi::Any, true, &[0, 1, 2]),
    };
    let ocfg = OptCfg { indents: true, custom_splitters: custom, algs, crlf: true };
    let n_texts = 450 * scale;
    // (a) CRLF corner cases: every short text over {a, space, CR, LF} with the CRLF line ending (lone CR / LF are text)
    for (i, text) in all_strings(&['a', ' ', '\r', '\n'], 4).iter().enumerate() {
        for w in [1usize, 3, 10] {
            if (i + w) % 2 == 0 {
                let mut o = gen_opts(r, &ocfg, w);
                o.crlf = true;
                o.splitter = Splitter::Hyphen;
                if i % 3 != 0 {
                    o.ii.clear();
                    o.si.clear();
                }
                if i % 4 == 0 {
                    rec_fill(ch, text, &o, prop);
                } else {
                    rec_wrap(ch, text, &o, prop);
                }
            }
        }
    }
    // (b) the zero-width sentinel scenario: a long first word, an initial indent that is wider in columns than the
    //     subsequent indent but not longer in bytes (multi-byte / coloured subsequent indent), break_words on
    let pairs: &[(&str, &str)] = &[("  ", "\u{e9}"), ("    ", "\u{1b}[1m>\u{1b}[0m "), ("\u{4f60}\u{597d}", "\u{e9}-\u{e9}"), ("* ", "\u{1b}[90m|\u{1b}[0m"), ("   ", "\u{bb} "),
                                  ("> ", ""), ("", "> "), ("    ", "  ")];
    for i in 0..60 * scale {
        let (ii, si) = pairs[i % pairs.len()];
        let n = r.range(5, 12);
        let first: String = (0..n).map(|k| (b'a' + ((k * 5 + i) % 26) as u8) as char).collect();
        let rest = gen_para(r, &TextCfg { max_words: 3, max_paras: 1, ansi: Ansi::None, unicode: true, ctrl: false, crlf: false });
        let text = format!("{} {}", first, rest);
        let iw = display_width_oracle(ii);
        for w in [iw + 1, iw + 2, iw + n / 2, iw + n - 1, iw + n] {
            let mut o = gen_opts(r, &ocfg, w);
            o.ii = ii.to_string();
            o.si = si.to_string();
            o.bw = true;
            o.crlf = false;
            o.splitter = Splitter::Hyphen;
            rec_wrap(ch, &text, &o, prop);
        }
    }
    // (b2) the sentinel must also be available when the first word *fits* the narrow first line: under optimal-fit the
    //      cheapest arrangement may leave the first line to the indent alone (short words, first line 1-2 columns wide)
    if prop == "C03" || prop == "C01" || prop == "C08" {
        let lens = [1usize, 2, 3, 4];
        for (pi, (ii, si)) in [("     ", ""), ("      ", "  "), ("\u{4f60}\u{597d}\u{4f60}", "\u{e9}"), ("> > > ", "> ")].iter().enumerate() {
            let iw = display_width_oracle(ii);
            let sw = display_width_oracle(si);
            for a in lens {
                for b in lens {
                    for c in lens {
                        if prop != "C03" && (a + 2 * b + 3 * c + pi) % 6 != 0 {
                            continue;
                        }
                        let text = format!("{} {} {}", "a".repeat(a), "b".repeat(b), "c".repeat(c));
                        for room in [1usize, 2] {
                            let mut o = Opts::new(iw + room);
                            o.ii = ii.to_string();
                            o.si = si.to_string();
                            o.bw = true;
                            o.sep = Sep::Ascii;
                            o.splitter = Splitter::None;
                            o.alg = if FULL { Alg::Opt(Pen::DEFAULT) } else { Alg::FF };
                            let _ = sw;
                            rec_wrap(ch, &text, &o, prop);
                        }
                    }
                }
            }
        }
    }
    // (c) zero-width characters inside otherwise plain words, at every width between the display width and the
    //     char / byte count (where a cached or shortcut width that counts bytes or chars goes wrong)
    for i in 0..40 * scale {
        let n = r.range(1, 3);
        let words: Vec<&str> = (0..n).map(|k| if (i + k) % 3 == 2 { *r.pick(ASCII_WORDS) } else { *r.pick(ZW_WORDS) }).collect();
        let text = words.join(" ");
        let dw = display_width_oracle(&text);
        // hyphenated words: every width from 1 (a piece's cached width matters at the width of the *line*, not of the text)
        let lo = if text.contains('-') { 1 } else { dw.saturating_sub(1) };
        for w in lo..=text.len() + 1 {
            let mut o = gen_opts(r, &ocfg, w);
            o.crlf = false;
            if text.contains('-') {
                o.splitter = Splitter::Hyphen;
            } else if matches!(o.splitter, Splitter::Every2 | Splitter::Every3 | Splitter::Half) || i % 2 == 0 {
                o.splitter = Splitter::None;
            }
            if i % 3 != 0 {
                o.ii.clear();
                o.si.clear();
            }
            rec_wrap(ch, &text, &o, prop);
        }
    }
    for i in 0..n_texts {
        let crlf = i % 5 == 0;
        let tc = TextCfg { max_words: 6, max_paras: 4, ansi: if i % 3 == 0 { Ansi::None } else { ansi }, unicode: true, ctrl: ansi == Ansi::Any, crlf };
        let text = match i % 7 {
            0 => gen_alpha(r, ALPHA_WRAP, 14),
            1 if ansi == Ansi::Any => gen_alpha(r, ALPHA_ADVERSARIAL, 12),
            _ => gen_text(r, &tc),
        };
        let probe = gen_opts(r, &ocfg, 10);
        let widths = widths_for(r, &text, &probe.ii, &probe.si, prop == "C01" || prop == "C08");
        let nw = 6;
        for _ in 0..nw {
            let w = *r.pick(&widths);
            let mut o = gen_opts(r, &ocfg, w);
            if r.chance(1, 2) {
                o.ii = probe.ii.clone();
                o.si = probe.si.clone();
            }
            if !crlf {
                o.crlf = false;
            }
            if r.chance(1, 6) {
                rec_fill(ch, &text, &o, prop);
            } else {
                rec_wrap(ch, &text, &o, prop);
            }
        }
    }
}

/// wrap() calls recorded step by step through the crate's `verif-hooks` feature (validated against the
/// step machine of spec/MC_Wrap.tla by spec/TraceWrap.tla)
fn gen_steps(ch: &mut Chunker, r: &mut Rng, scale: usize) {
    let ocfg = OptCfg { indents: true, custom_splitters: true, algs: &[0, 0, 1, 2], crlf: true };
    for i in 0..60 * scale {
        let crlf = i % 5 == 0;
        let tc = TextCfg { max_words: 6, max_paras: 3, ansi: if i % 3 == 0 { Ansi::None } else { Ansi::Any }, unicode: true, ctrl: i % 4 == 0, crlf };
        let text = match i % 7 {
            0 => gen_alpha(r, ALPHA_WRAP, 14),
            1 => gen_alpha(r, ALPHA_ADVERSARIAL, 12),
            _ => gen_text(r, &tc),
        };
        let probe = gen_opts(r, &ocfg, 10);
        let mut widths = widths_for(r, &text, &probe.ii, &probe.si, false);
        widths.retain(|&w| w < 1000);
        for _ in 0..5 {
            let w = *r.pick(&widths);
            let mut o = gen_opts(r, &ocfg, w);
            if r.chance(1, 2) {
                o.ii = probe.ii.clone();
                o.si = probe.si.clone();
            }
            if !crlf {
                o.crlf = false;
            }
            rec_wrap_steps(ch, &text, &o);
        }
    }
}

/// unfill() calls recorded step by step (validated against the step machine of spec/MC_Refill.tla by spec/TraceRefill.tla)
pub fn gen_unfill_steps(ch: &mut Chunker, r: &mut Rng, scale: usize) {
    for s in all_strings(&['a', ' ', '-', '>', '\n', '\r'], 4) {
        rec_unfill_steps(ch, &s);
    }
    for i in 0..400 * scale {
        let s = match i % 3 {
            0 => gen_alpha(r, &['a', ' ', '-', '>', '#', '\n', '\r', '\u{4f60}', '/', '*', '+'], 16),
            1 => gen_alpha(r, ALPHA_ADVERSARIAL, 14),
            _ => {
                let tc = TextCfg { max_words: 4, max_paras: 4, ansi: Ansi::Any, unicode: true, ctrl: true, crlf: i % 2 == 0 };
                textwrap::indent(&gen_text(r, &tc), *r.pick(PREFIX_INDENTS))
            }
        };
        rec_unfill_steps(ch, &s);
    }
}
