//! Relational / composite events and the generators of the remaining properties.

use crate::api::*;
use crate::gen::*;
use crate::rec::{char_width_oracle, Chunker, Rng};
use serde_json::{json, Value};

pub fn run_input2(_ch: &mut Chunker, k: &str, _v: &Value) {
    eprintln!("twh: unknown input kind {:?}", k);
}

pub fn generate2(_ch: &mut Chunker, prop: &str, _r: &mut Rng, _thorough: bool, _scale: usize) {
    eprintln!("twh: no generator for {}", prop);
    std::process::exit(2);
}

// ---------------------------------------------------------------------------------------------
// C10
// ---------------------------------------------------------------------------------------------

fn scalar_block(ch: &mut Chunker, cps: &[u32]) {
    let mut wo = Vec::with_capacity(cps.len());
    let mut dw = Vec::with_capacity(cps.len());
    let mut buf = [0u8; 4];
    for &c in cps {
        let chr = char::from_u32(c).unwrap();
        wo.push(char_width_oracle(chr));
        let s: &str = chr.encode_utf8(&mut buf);
        let r = guarded(&|| format!("display_width(U+{:04X})", c), || textwrap::core::display_width(s));
        dw.push(r.map(|x| x as i64).unwrap_or(-1));
    }
    ch.push(json!({"ev": "scalars", "cp": cps, "wo": wo, "dw": dw}));
}

pub fn scalar_sweep(ch: &mut Chunker, r: &mut Rng, thorough: bool) {
    let mut block = Vec::with_capacity(256);
    let mut push = |c: u32, ch: &mut Chunker, block: &mut Vec<u32>| {
        if char::from_u32(c).is_some() {
            block.push(c);
            if block.len() == 256 {
                scalar_block(ch, block);
                block.clear();
            }
        }
    };
    for c in 0..0x10000u32 {
        push(c, ch, &mut block);
    }
    if thorough {
        for c in 0x10000..=0x10FFFFu32 {
            push(c, ch, &mut block);
        }
    } else {
        // planes 1-2 and 14 hold everything that is assigned; sample the rest
        for c in (0x10000..0x30000u32).step_by(7) {
            push(c + (r.below(7) as u32), ch, &mut block);
        }
        for c in 0xE0000..0xE0200u32 {
            push(c, ch, &mut block);
        }
        for _ in 0..4096 {
            push(r.range(0x10000, 0x10FFFF) as u32, ch, &mut block);
        }
    }
    if !block.is_empty() {
        scalar_block(ch, &block);
    }
}

pub fn rec_dw_rel(ch: &mut Chunker, r: &mut Rng) {
    let dw = |s: &str| guarded(&|| format!("display_width({:?})", s), || textwrap::core::display_width(s)).map(|x| x as i64).unwrap_or(-1);
    let plain = TextCfg { max_words: 4, max_paras: 1, ansi: Ansi::None, unicode: true, ctrl: true, crlf: false };
    if r.chance(1, 2) {
        let a = gen_para(r, &plain);
        let b = gen_para(r, &plain);
        let ab = format!("{}{}", a, b);
        let ev = json!({"ev": "dwrel", "kind": "concat", "a": ch.cps(&a), "b": ch.cps(&b), "t": ch.cps(&ab), "pos": 0,
                        "ra": dw(&a), "rb": dw(&b), "rt": dw(&ab)});
        ch.push(ev);
    } else {
        let wf = TextCfg { ansi: Ansi::WellFormed, ..plain };
        let s = gen_para(r, &wf);
        let seq = r.pick(ANSI_WF).to_string();
        let chars: Vec<char> = s.chars().collect();
        let pos = r.below(chars.len() + 1);
        let mut t: String = chars[..pos].iter().collect();
        t.push_str(&seq);
        t.extend(chars[pos..].iter());
        let ev = json!({"ev": "dwrel", "kind": "insert", "a": ch.cps(&s), "b": ch.cps(&seq), "t": ch.cps(&t), "pos": pos,
                        "ra": dw(&s), "rb": dw(&seq), "rt": dw(&t)});
        ch.push(ev);
    }
}
