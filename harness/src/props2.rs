//! Relational / composite events and the generators of the remaining properties.

use crate::api::*;
use crate::gen::*;
use crate::props::{gen_wrap_family, opts_from_json};
use crate::rec::{alpha, alpha_inv, char_width_oracle, Chunker, Rng};
use serde_json::{json, Value};
use textwrap::core::Fragment;

fn s_of(v: &Value) -> String {
    v.as_array().map(|a| a.iter().map(|c| char::from_u32(c.as_u64().unwrap() as u32).unwrap()).collect()).unwrap_or_default()
}
fn strs(ch: &mut Chunker, ls: &[String]) -> Value {
    Value::Array(ls.iter().map(|l| ch.cps(l)).collect())
}
fn supported(o: &Opts) -> bool {
    FULL || (o.sep != Sep::Uax && o.alg == Alg::FF)
}

pub fn run_input2(ch: &mut Chunker, k: &str, v: &Value) {
    match k {
        "frag" => {
            let fs: Vec<F> = v["fs"].as_array().unwrap().iter().map(|t| F(t[0].as_f64().unwrap(), t[1].as_f64().unwrap(), t[2].as_f64().unwrap())).collect();
            let scale = v["scale"].as_f64().unwrap_or(1.0);
            let fs: Vec<F> = fs.iter().map(|f| F(f.0 / scale, f.1 / scale, f.2 / scale)).collect();
            let lws: Vec<f64> = v["lws"].as_array().unwrap().iter().map(|x| x.as_f64().unwrap() / scale).collect();
            let pen = opts_from_json(&json!({"width": 0, "pen": v["pen"], "alg": "opt"}));
            let p = if let Alg::Opt(p) = pen.alg { p } else { Pen::DEFAULT };
            if v["alg"] == "ff" || FULL {
                rec_frag(ch, v["alg"] == "opt", &fs, &lws, p, scale as i64);
            }
        }
        "c05" => {
            let o = opts_from_json(&v["o"]);
            if supported(&o) {
                let pre: Vec<String> = v["pre"].as_array().map(|a| a.iter().map(s_of).collect()).unwrap_or_default();
                rec_c05(ch, v["kind"] == "fill", &s_of(&v["text"]), &o, &pre);
            }
        }
        "c08" => {
            let (o1, o2) = (opts_from_json(&v["o1"]), opts_from_json(&v["o2"]));
            if supported(&o1) {
                rec_c08(ch, &s_of(&v["text"]), &o1, &o2);
            }
        }
        "c09" => {
            let o = opts_from_json(&v["o"]);
            if supported(&o) {
                rec_c09(ch, &s_of(&v["a"]), &s_of(&v["b"]), &s_of(&v["a2"]), &o);
            }
        }
        "c13" => {
            let o = opts_from_json(&v["o"]);
            if supported(&o) {
                rec_c13(ch, &s_of(&v["col"]), &o);
            }
        }
        "c14" => {
            let o = opts_from_json(&v["o"]);
            if supported(&o) {
                rec_c14(ch, &s_of(&v["text"]), &o);
            }
        }
        "c15" => {
            let o = opts_from_json(&v["o"]);
            if supported(&o) {
                rec_c15(ch, &s_of(&v["para"]), v["trail"].as_bool().unwrap_or(false), &o);
            }
        }
        "c16" => {
            let (o1, o2) = (opts_from_json(&v["o1"]), opts_from_json(&v["o2"]));
            if supported(&o1) && supported(&o2) {
                rec_c16(ch, &s_of(&v["para"]), v["trail"].as_bool().unwrap_or(false), &o1, &o2);
            }
        }
        "unfill" => rec_unfill(ch, &s_of(&v["s"])),
        "c17" => rec_c17(ch, &s_of(&v["text"]), alpha_inv(v["width"].as_i64().unwrap())),
        "dedent" => rec_dedent(ch, &s_of(&v["s"])),
        "c18" => rec_c18(ch, &s_of(&v["s"]), &s_of(&v["p"])),
        "indent" => rec_indent(ch, &s_of(&v["s"]), &s_of(&v["p"])),
        "c20" => {
            let o = opts_from_json(&v["o"]);
            if supported(&o) {
                rec_c20(ch, &s_of(&v["text"]), v["cols"].as_u64().unwrap() as usize, &o, &s_of(&v["lg"]), &s_of(&v["mg"]), &s_of(&v["rg"]));
            }
        }
        "scalars" => {
            let cps: Vec<u32> = v["cp"].as_array().unwrap().iter().map(|c| c.as_u64().unwrap() as u32).collect();
            scalar_block(ch, &cps);
        }
        "dwrel" => {
            let (a, b, pos) = (s_of(&v["a"]), s_of(&v["b"]), v["pos"].as_u64().unwrap_or(0) as usize);
            rec_dwrel(ch, v["kind"] == "concat", &a, &b, pos);
        }
        "std" => rec_std(ch, v["op"].as_str().unwrap_or(""), &s_of(&v["s"])),
        "optseq" => rec_optseq(ch, crate::rec::alpha_inv(v["w0"].as_i64().unwrap_or(0)), v["ops"].as_array().map(|a| a.as_slice()).unwrap_or(&[])),
        _ => eprintln!("twh: unknown input kind {:?}", k),
    }
}

pub fn generate2(ch: &mut Chunker, prop: &str, r: &mut Rng, thorough: bool, scale: usize) {
    match prop {
        "C03" => {
            gen_frags(ch, r, "C03", thorough, scale);
            if FULL {
                gen_wrap_family(ch, r, "C03", thorough, scale);
            }
        }
        "C04" => gen_c04(ch, r, thorough, scale),
        "C05" => {
            gen_c05(ch, r, thorough, scale);
            gen_wrap_family(ch, r, "C05", thorough, scale);
        }
        "C06" => gen_frags(ch, r, "C06", thorough, scale),
        "C09" => gen_c09(ch, r, thorough, scale),
        "C13" => gen_c13(ch, r, thorough, scale),
        "C14" => gen_c14(ch, r, thorough, scale),
        "C15" => gen_c15(ch, r, thorough, scale),
        "C16" => gen_c16(ch, r, thorough, scale),
        "C17" => gen_c17(ch, r, thorough, scale),
        "C18" => gen_c18(ch, r, thorough, scale),
        "C19" => gen_c19(ch, r, thorough, scale),
        "C20" => gen_c20(ch, r, thorough, scale),
        _ => {
            eprintln!("twh: no generator for {}", prop);
            std::process::exit(2);
        }
    }
    gen_std(ch, r);
}

// ---------------------------------------------------------------------------------------------
// std model checks
// ---------------------------------------------------------------------------------------------

pub fn rec_std(ch: &mut Chunker, op: &str, s: &str) {
    let prefix_chars: &[char] = &[' ', '-', '+', '*', '>', '#', '/'];
    let res: Vec<String> = match op {
        "lines" => s.lines().map(String::from).collect(),
        "split_lf" => s.split('\n').map(String::from).collect(),
        "split_crlf" => s.split("\r\n").map(String::from).collect(),
        "split_terminator" => s.split_terminator('\n').map(String::from).collect(),
        "trim_end_spaces" => vec![s.trim_end_matches(' ').to_string()],
        "trim" => vec![s.trim().to_string()],
        "trim_end" => vec![s.trim_end().to_string()],
        "trim_start_prefix" => vec![s.trim_start_matches(prefix_chars).to_string()],
        _ => return,
    };
    let ev = json!({"ev": "std", "op": op, "s": ch.cps(s), "res": strs(ch, &res)});
    ch.push(ev);
}

pub fn gen_std(ch: &mut Chunker, r: &mut Rng) {
    let ops = ["lines", "split_lf", "split_crlf", "split_terminator", "trim_end_spaces", "trim", "trim_end", "trim_start_prefix"];
    let alpha_: &[char] = &['a', ' ', '\n', '\r', '\t', '>', '-', '\u{a0}', '\u{3000}'];
    for _ in 0..40 {
        let s = gen_alpha(r, alpha_, 8);
        for op in ops {
            rec_std(ch, op, &s);
        }
    }
}

// ---------------------------------------------------------------------------------------------
// C10
// ---------------------------------------------------------------------------------------------

pub fn scalar_block(ch: &mut Chunker, cps: &[u32]) {
    let mut wo = Vec::with_capacity(cps.len());
    let mut dw = Vec::with_capacity(cps.len());
    let mut buf = [0u8; 4];
    for &c in cps {
        let chr = char::from_u32(c).unwrap();
        wo.push(char_width_oracle(chr));
        let s: &str = chr.encode_utf8(&mut buf);
        let r = guarded(&|| format!("display_width(U+{:04X})", c), || textwrap::core::display_width(s));
        dw.push(r.map(|x| x as i64).unwrap_or(-1));
    }
    ch.push(json!({"ev": "scalars", "cp": cps, "wo": wo, "dw": dw}));
}

pub fn scalar_sweep(ch: &mut Chunker, r: &mut Rng, thorough: bool) {
    let mut block = Vec::with_capacity(256);
    let push = |c: u32, ch: &mut Chunker, block: &mut Vec<u32>| {
        if char::from_u32(c).is_some() {
            block.push(c);
            if block.len() == 256 {
                scalar_block(ch, block);
                block.clear();
            }
        }
    };
    for c in 0..0x10000u32 {
        push(c, ch, &mut block);
    }
    if thorough {
        for c in 0x10000..=0x10FFFFu32 {
            push(c, ch, &mut block);
        }
    } else {
        // planes 1-2 and 14 hold everything that is assigned; sample the rest
        for c in (0x10000..0x30000u32).step_by(7) {
            push(c + (r.below(7) as u32), ch, &mut block);
        }
        for c in 0xE0000..0xE0200u32 {
            push(c, ch, &mut block);
        }
        for _ in 0..4096 {
            push(r.range(0x10000, 0x10FFFF) as u32, ch, &mut block);
        }
    }
    if !block.is_empty() {
        scalar_block(ch, &block);
    }
}

pub fn rec_dwrel(ch: &mut Chunker, concat: bool, a: &str, b: &str, pos: usize) {
    let dw = |s: &str| guarded(&|| format!("display_width({:?})", s), || textwrap::core::display_width(s)).map(|x| x as i64).unwrap_or(-1);
    let t = if concat {
        format!("{}{}", a, b)
    } else {
        let chars: Vec<char> = a.chars().collect();
        let pos = pos.min(chars.len());
        let mut t: String = chars[..pos].iter().collect();
        t.push_str(b);
        t.extend(chars[pos..].iter());
        t
    };
    let ev = json!({"ev": "dwrel", "kind": if concat { "concat" } else { "insert" }, "a": ch.cps(a), "b": ch.cps(b), "t": ch.cps(&t), "pos": pos,
                    "ra": dw(a), "rb": dw(b), "rt": dw(&t)});
    ch.push(ev);
}

pub fn rec_dw_rel(ch: &mut Chunker, r: &mut Rng) {
    let plain = TextCfg { max_words: 4, max_paras: 1, ansi: Ansi::None, unicode: true, ctrl: true, crlf: false };
    if r.chance(1, 2) {
        let a = gen_para(r, &plain);
        let b = gen_para(r, &plain);
        rec_dwrel(ch, true, &a, &b, 0);
    } else {
        let wf = TextCfg { ansi: Ansi::WellFormed, ..plain };
        let s = gen_para(r, &wf);
        let seq = r.pick(ANSI_WF).to_string();
        let pos = r.below(s.chars().count() + 1);
        rec_dwrel(ch, false, &s, &seq, pos);
    }
}

// ---------------------------------------------------------------------------------------------
// fragments (C03, C06, C07)
// ---------------------------------------------------------------------------------------------

#[derive(Debug, Clone, Copy)]
pub struct F(pub f64, pub f64, pub f64);
impl Fragment for F {
    fn width(&self) -> f64 {
        self.0
    }
    fn whitespace_width(&self) -> f64 {
        self.1
    }
    fn penalty_width(&self) -> f64 {
        self.2
    }
}

fn is_small_int(x: f64, scale: i64) -> bool {
    let y = x * scale as f64;
    y.is_finite() && y >= 0.0 && y.fract() == 0.0 && y <= 1.0e6
}
fn usize_valued(x: f64) -> bool {
    x.is_finite() && x >= 0.0 && x.fract() == 0.0 && x < 18446744073709551616.0
}

/// scale: fragment numbers are logged multiplied by `scale` (1, or 8 for dyadic eighths)
pub fn rec_frag(ch: &mut Chunker, opt: bool, fs: &[F], lws: &[f64], pen: Pen, scale: i64) {
    let n = fs.len();
    let base = fs.as_ptr() as usize;
    let sz = std::mem::size_of::<F>();
    let shape_of = |lines: &Vec<&[F]>| -> Vec<(usize, usize)> { lines.iter().map(|l| ((l.as_ptr() as usize - base) / sz, l.len())).collect() };
    let desc = || format!("{}({:?}, {:?}, {:?})", if opt { "wrap_optimal_fit" } else { "wrap_first_fit" }, fs, lws, pen);
    let r: Result<Result<Vec<(usize, usize)>, ()>, String> = guarded(&desc, || {
        if opt {
            #[cfg(feature = "full")]
            {
                match textwrap::wrap_algorithms::wrap_optimal_fit(fs, lws, &pen.to_penalties()) {
                    Ok(lines) => Ok(shape_of(&lines)),
                    Err(_) => Err(()),
                }
            }
            #[cfg(not(feature = "full"))]
            {
                Err(())
            }
        } else {
            Ok(shape_of(&textwrap::wrap_algorithms::wrap_first_fit(fs, lws)))
        }
    });
    let finite = fs.iter().all(|f| f.0.is_finite() && f.1.is_finite() && f.2.is_finite()) && lws.iter().all(|w| w.is_finite());
    let exact = fs.iter().all(|f| is_small_int(f.0, scale) && is_small_int(f.1, scale) && is_small_int(f.2, scale))
        && lws.iter().all(|&w| is_small_int(w, scale))
        && pen.small()
        && (scale == 1 || !opt);
    let usz = fs.iter().all(|f| usize_valued(f.0) && usize_valued(f.1) && usize_valued(f.2)) && lws.iter().all(|&w| usize_valued(w));
    let fsj: Vec<Value> =
        if exact { fs.iter().map(|f| json!([(f.0 * scale as f64) as i64, (f.1 * scale as f64) as i64, (f.2 * scale as f64) as i64])).collect() } else { vec![] };
    let lwj: Vec<i64> = if exact { lws.iter().map(|&w| (w * scale as f64) as i64).collect() } else { vec![] };
    let raw = if exact { String::new() } else { format!("{:?} {:?} {:?}", fs, lws, pen) };
    let (status, shape, res): (&str, Vec<Value>, Vec<Value>) = match &r {
        Ok(Ok(sh)) => (
            "ok",
            sh.iter().map(|(o, l)| json!([o, l])).collect(),
            sh.iter().map(|(o, l)| if *l == 0 { json!([o + 1, *o]) } else { json!([o + 1, o + l]) }).collect(),
        ),
        Ok(Err(())) => ("err", vec![], vec![]),
        Err(_) => ("panic", vec![], vec![]),
    };
    let penj = if pen.small() { pen.json() } else { Pen::DEFAULT.json() };
    ch.push(json!({"ev": "frag", "alg": if opt { "opt" } else { "ff" }, "n": n, "fs": fsj, "lws": lwj, "scale": scale, "pen": penj,
                   "exact": exact, "finite": finite, "usz": usz, "raw": raw, "shape": shape, "res": res, "status": status}));
}

/// The public dispatcher `WrapAlgorithm::wrap(&words, &line_widths)` on real `Word`s (found and split from `line`) with a
/// `usize` width list of any length: logged as a `frag` event (fragment numbers through the public `Fragment` trait,
/// shape from the pointers of the returned slices), so it is judged exactly like a direct call of the algorithm.
pub fn rec_dispatch(ch: &mut Chunker, line: &str, sep: Sep, sp: Splitter, alg: Alg, widths: &[usize]) {
    use textwrap::core::Fragment;
    if widths.iter().any(|&w| w > 1_000_000) || (alg != Alg::FF && !FULL) {
        return;
    }
    let splitter = sp.to_splitter();
    let words: Vec<textwrap::core::Word<'_>> = match guarded(&|| format!("words for dispatch {:?}", line), || {
        textwrap::word_splitters::split_words(sep.to_separator().find_words(line), &splitter).collect::<Vec<_>>()
    }) {
        Ok(w) => w,
        Err(_) => return,
    };
    let fs: Vec<F> = words.iter().map(|w| F(w.width(), w.whitespace_width(), w.penalty_width())).collect();
    let base = words.as_ptr() as usize;
    let sz = std::mem::size_of::<textwrap::core::Word<'_>>();
    let (opt, pen) = match alg {
        Alg::FF => (false, Pen::DEFAULT),
        Alg::Opt(p) => (true, p),
    };
    if !pen.small() {
        return;
    }
    let r = guarded(&|| format!("WrapAlgorithm::wrap({:?}, {:?}, {:?})", alg, line, widths), || {
        let a = match alg {
            Alg::FF => textwrap::WrapAlgorithm::FirstFit,
            #[cfg(feature = "full")]
            Alg::Opt(p) => textwrap::WrapAlgorithm::OptimalFit(p.to_penalties()),
            #[cfg(not(feature = "full"))]
            Alg::Opt(_) => textwrap::WrapAlgorithm::FirstFit,
        };
        a.wrap(&words, widths).iter().map(|l| ((l.as_ptr() as usize - base) / sz, l.len())).collect::<Vec<(usize, usize)>>()
    });
    let fsj: Vec<Value> = fs.iter().map(|f| json!([f.0 as i64, f.1 as i64, f.2 as i64])).collect();
    let (status, shape, res): (&str, Vec<Value>, Vec<Value>) = match &r {
        Ok(sh) => (
            "ok",
            sh.iter().map(|(o, l)| json!([o, l])).collect(),
            sh.iter().map(|(o, l)| if *l == 0 { json!([o + 1, *o]) } else { json!([o + 1, o + l]) }).collect(),
        ),
        Err(_) => ("panic", vec![], vec![]),
    };
    ch.push(json!({"ev": "frag", "alg": if opt { "opt" } else { "ff" }, "n": fs.len(), "fs": fsj, "lws": widths, "scale": 1, "pen": pen.json(),
                   "exact": true, "finite": true, "usz": true, "raw": "", "shape": shape, "res": res, "status": status, "via": "WrapAlgorithm::wrap"}));
}

/// width lists of length 0-4 for the dispatcher, with equal neighbours that are not the final run
fn gen_dispatch(ch: &mut Chunker, r: &mut Rng, prop: &str, scale: usize) {
    let seps: &[Sep] = if FULL { &[Sep::Ascii, Sep::Uax] } else { &[Sep::Ascii] };
    for i in 0..200 * scale {
        let tc = TextCfg { max_words: 9, max_paras: 1, ansi: if i % 4 == 0 { Ansi::WellFormed } else { Ansi::None }, unicode: true, ctrl: false, crlf: false };
        let line = gen_para(r, &tc);
        let base = *r.pick(&[3usize, 5, 8, 11, 16, 24]);
        for _ in 0..3 {
            let n = r.below(5);
            let mut ws: Vec<usize> = (0..n).map(|_| r.range(0, base + 4)).collect();
            if n >= 3 && r.chance(1, 2) {
                ws[1] = ws[0];
            }
            if n >= 4 && r.chance(1, 3) {
                ws[2] = ws[1];
            }
            let sp = *r.pick(&[Splitter::None, Splitter::Hyphen, Splitter::Every2, Splitter::Every3, Splitter::Half]);
            if prop != "C03" {
                rec_dispatch(ch, &line, *r.pick(seps), sp, Alg::FF, &ws);
            }
            if FULL && prop != "C07" {
                let w2: Vec<usize> = if prop == "C03" && ws.len() > 2 { ws[..2].to_vec() } else { ws.clone() };
                rec_dispatch(ch, &line, *r.pick(seps), sp, Alg::Opt(if r.chance(1, 3) { gen_pen(r) } else { Pen::DEFAULT }), &w2);
            }
        }
    }
}

fn gen_int_frags(r: &mut Rng, n: usize, maxw: usize, pen_ok: bool) -> Vec<F> {
    let mut v: Vec<F> = (0..n)
        .map(|_| {
            let w = if r.chance(1, 8) { 0 } else { r.range(1, maxw) };
            let ws = *r.pick(&[0usize, 1, 1, 1, 2, 3]);
            F(w as f64, ws as f64, 0.0)
        })
        .collect();
    for i in 0..n {
        if r.chance(1, 5) {
            let next = if i + 1 < n { v[i + 1].0 } else { 1.0 };
            if !pen_ok || next >= 1.0 {
                v[i].2 = 1.0;
                if r.chance(1, 2) {
                    v[i].1 = 0.0;
                }
            }
        }
    }
    v
}

pub fn gen_frags(ch: &mut Chunker, r: &mut Rng, prop: &str, thorough: bool, scale: usize) {
    let do_ff = prop != "C03" || true;
    let do_opt = FULL && prop != "C07";
    // exhaustive tiny domain: n <= 4 over w in {0,1,2,3}, ws in {0,1}, all width lists of length 0..2 over 0..4
    let ws_ = [0.0, 1.0];
    let wv = [0.0, 1.0, 2.0, 3.0];
    let nmax = if thorough { 4 } else { 3 };
    let mut lists: Vec<Vec<f64>> = vec![vec![]];
    for a in 0..5 {
        lists.push(vec![a as f64]);
        for b in 0..5 {
            lists.push(vec![a as f64, b as f64]);
        }
    }
    let mut frs: Vec<Vec<F>> = vec![vec![]];
    let mut layer: Vec<Vec<F>> = vec![vec![]];
    for _ in 0..nmax {
        let mut next = Vec::new();
        for f in &layer {
            for &w in &wv {
                for &s in &ws_ {
                    let mut g = f.clone();
                    g.push(F(w, s, 0.0));
                    next.push(g);
                }
            }
        }
        frs.extend(next.iter().cloned());
        layer = next;
    }
    for (i, f) in frs.iter().enumerate() {
        // subsample the cross product deterministically
        for (j, l) in lists.iter().enumerate() {
            if (i * 7 + j) % (if thorough { 3 } else { 5 }) != 0 {
                continue;
            }
            if do_ff && prop != "C03" {
                rec_frag(ch, false, f, l, Pen::DEFAULT, 1);
            }
            if do_opt && !l.is_empty() {
                rec_frag(ch, true, f, l, if (i + j) % 4 == 0 { gen_pen(r) } else { Pen::DEFAULT }, 1);
            }
        }
    }
    // random integer fragments, small / medium / large-but-exact
    for i in 0..1500 * scale {
        let n = match i % 5 {
            0 => r.below(4),
            1 | 2 => r.range(1, 9),
            3 => r.range(5, 25),
            _ => r.range(10, 60),
        };
        let maxw = *r.pick(&[3usize, 6, 6, 12, 12, 30, 100]);
        let fs = gen_int_frags(r, n, maxw, true);
        let base = *r.pick(&[1usize, 4, 8, 10, 15, 20, 40, 80, 120]);
        let lws: Vec<f64> = match r.below(8) {
            0 => vec![],
            1..=3 => vec![base as f64],
            4..=6 => vec![r.range(0, base + 3) as f64, base as f64],
            _ => vec![r.range(0, base + 3) as f64, base as f64, r.range(0, base + 3) as f64],
        };
        if prop != "C03" {
            rec_frag(ch, false, &fs, &lws, Pen::DEFAULT, 1);
        }
        if do_opt {
            let pen = match r.below(4) {
                0 | 1 => Pen::DEFAULT,
                _ => gen_pen(r),
            };
            let lw2: Vec<f64> = if prop == "C03" && (lws.is_empty() || lws.len() > 2) { vec![base as f64] } else { lws.clone() };
            rec_frag(ch, true, &fs, &lw2, pen, 1);
        }
        // dyadic eighths for first-fit (C07)
        if prop == "C07" && i % 3 == 0 {
            let fs8: Vec<F> = fs.iter().map(|f| F(f.0 + r.below(8) as f64 / 8.0, f.1 * r.below(9) as f64 / 8.0, f.2 * r.below(9) as f64 / 8.0)).collect();
            let lw8: Vec<f64> = lws.iter().map(|w| w + r.below(8) as f64 / 8.0).collect();
            rec_frag(ch, false, &fs8, &lw8, Pen::DEFAULT, 8);
        }
    }
    // the public dispatcher on real words with usize width lists of any length
    if prop != "C04" {
        gen_dispatch(ch, r, prop, scale);
    }
    // adversarial f64 values: shape and totality only (C06 / C04)
    if prop == "C06" || prop == "C04" {
        let finite_vals = [0.0, 1.0, -1.0, 0.5, 1e100, 1e300, -1e300, 1.8446744073709552e19, 9007199254740993.0, 1e-300, f64::MAX, f64::MIN_POSITIVE, 3.0, 7.25, -0.0];
        let nonfinite = [f64::INFINITY, f64::NEG_INFINITY, f64::NAN];
        for i in 0..1200 * scale {
            let n = r.below(9);
            let allow_nf = prop == "C04" && i % 3 == 0;
            let mut pick = |r: &mut Rng| if allow_nf && r.chance(1, 6) { *r.pick(&nonfinite) } else { *r.pick(&finite_vals) };
            let fs: Vec<F> = (0..n).map(|_| F(pick(r), pick(r), pick(r))).collect();
            let lws: Vec<f64> = (0..r.below(4)).map(|_| pick(r)).collect();
            let big = [0usize, 1, 1000, usize::MAX, usize::MAX / 2, 1 << 53];
            let pen = if r.chance(1, 2) { Pen::DEFAULT } else { Pen { nline: *r.pick(&big), over: *r.pick(&big), frac: *r.pick(&big), short: *r.pick(&big), hyph: *r.pick(&big) } };
            rec_frag(ch, false, &fs, &lws, pen, 1);
            if FULL {
                rec_frag(ch, true, &fs, &lws, pen, 1);
            }
        }
        // usize-valued but huge: optimal-fit must not report an overflow error
        for _ in 0..300 * scale {
            let n = r.range(1, 8);
            let hv = [0.0, 1.0, 1e6, 4294967296.0, 9007199254740992.0, 1.8446744073709550e19, 1e15];
            let fs: Vec<F> = (0..n).map(|_| F(*r.pick(&hv), *r.pick(&[0.0, 1.0, 1e6]), *r.pick(&[0.0, 1.0]))).collect();
            let lws: Vec<f64> = (0..r.range(1, 2)).map(|_| *r.pick(&hv)).collect();
            let big = [0usize, 1, 1000, usize::MAX, usize::MAX / 2, 1 << 53];
            let pen = Pen { nline: *r.pick(&big), over: *r.pick(&big), frac: *r.pick(&big), short: *r.pick(&big), hyph: *r.pick(&big) };
            if FULL {
                rec_frag(ch, true, &fs, &lws, pen, 1);
            }
            rec_frag(ch, false, &fs, &lws, pen, 1);
        }
    }
}

// ---------------------------------------------------------------------------------------------
// C05 (ii): shortcut vs general path
// ---------------------------------------------------------------------------------------------

pub fn rec_c05(ch: &mut Chunker, is_fill: bool, text: &str, o: &Opts, pre: &[String]) {
    let oj = match o.json(ch) {
        Some(j) => j,
        None => return,
    };
    let r = guarded(&|| format!("c05 {:?} {}", text, o.describe()), || {
        let options = o.to_options();
        if is_fill {
            let fast = textwrap::fill(text, &options);
            let slow = textwrap::fuzzing::fill_slow_path(text, o.to_options());
            (vec![fast], vec![slow])
        } else {
            let mut a: Vec<std::borrow::Cow<'_, str>> = pre.iter().map(|s| std::borrow::Cow::Owned(s.clone())).collect();
            let mut b = a.clone();
            textwrap::fuzzing::wrap_single_line(text, &options, &mut a);
            textwrap::fuzzing::wrap_single_line_slow_path(text, &options, &mut b);
            (a.iter().map(|l| l.to_string()).collect(), b.iter().map(|l| l.to_string()).collect())
        }
    });
    let (fast, slow, status) = match r {
        Ok((f, s)) => (f, s, "ok"),
        Err(_) => (vec![], vec![], "panic"),
    };
    let ev = json!({"ev": "c05", "kind": if is_fill { "fill" } else { "wrap" }, "text": ch.cps(text), "o": oj, "pre": strs(ch, pre),
                    "fast": strs(ch, &fast), "slow": strs(ch, &slow), "status": status});
    ch.push(ev);
}

fn gen_c05(ch: &mut Chunker, r: &mut Rng, _thorough: bool, scale: usize) {
    let ocfg = OptCfg { indents: true, custom_splitters: true, algs: &[0, 1, 2], crlf: false };
    // CRLF corner cases: lone CR / LF are ordinary text under the CRLF line ending; widths on both sides of the byte length
    for (i, text) in all_strings(&['a', ' ', '\r', '\n'], 4).iter().enumerate() {
        for w in [text.len().saturating_sub(1), text.len(), text.len() + 1, text.len() + 2] {
            let mut o = gen_opts(r, &ocfg, w);
            o.crlf = true;
            o.splitter = Splitter::Hyphen;
            o.ii.clear();
            if i % 2 == 0 {
                o.si.clear();
            }
            rec_c05(ch, true, text, &o, &[]);
            if !text.contains("\r\n") {
                rec_c05(ch, false, text, &o, &[]);
            }
        }
    }
    for i in 0..500 * scale {
        let is_fill = i % 2 == 0;
        let tc = TextCfg { max_words: 5, max_paras: if is_fill { 2 } else { 1 }, ansi: if i % 3 == 0 { Ansi::Any } else { Ansi::WellFormed }, unicode: true, ctrl: false, crlf: false };
        let text = if i % 5 == 0 { gen_alpha(r, &['a', ' ', '\u{4f60}', '\u{e9}', '-', '\u{301}', '\u{7f}'], 10) } else if is_fill { gen_text(r, &tc) } else { gen_para(r, &tc) };
        let dw = display_width_oracle(&text);
        let bytes = text.len();
        let mut widths: Vec<usize> = (dw.saturating_sub(1)..=bytes + 2).collect();
        if widths.len() > 14 {
            let mut w2 = vec![dw.saturating_sub(1), dw, dw + 1, bytes.saturating_sub(1), bytes, bytes + 1, bytes + 2];
            for _ in 0..5 {
                w2.push(r.range(dw, bytes + 2));
            }
            widths = w2;
        }
        widths.push(usize::MAX);
        let base = gen_opts(r, &ocfg, 0);
        for w in widths {
            let mut o = base.clone();
            o.width = w;
            // the shortcut is only reachable with an empty applicable indent: cover both situations
            let pre: Vec<String> = if r.chance(1, 2) { vec![] } else { vec!["x".to_string()] };
            if r.chance(1, 2) {
                o.ii.clear();
            }
            if r.chance(1, 2) {
                o.si.clear();
            }
            rec_c05(ch, is_fill, &text, &o, &pre);
        }
    }
}

// ---------------------------------------------------------------------------------------------
// C08 second sentence
// ---------------------------------------------------------------------------------------------

pub fn rec_c08(ch: &mut Chunker, text: &str, o1: &Opts, o2: &Opts) {
    let (j1, j2) = match (o1.json(ch), o2.json(ch)) {
        (Some(a), Some(b)) => (a, b),
        _ => return,
    };
    let r = guarded(&|| format!("c08 {:?} {} / {}", text, o1.describe(), o2.describe()), || {
        let l1: Vec<String> = textwrap::wrap(text, o1.to_options()).iter().map(|l| l.to_string()).collect();
        let l2: Vec<String> = textwrap::wrap(text, o2.to_options()).iter().map(|l| l.to_string()).collect();
        (l1, l2)
    });
    let (l1, l2, status) = match r {
        Ok((a, b)) => (a, b, "ok"),
        Err(_) => (vec![], vec![], "panic"),
    };
    let ev = json!({"ev": "c08", "text": ch.cps(text), "o1": j1, "o2": j2, "l1": strs(ch, &l1), "l2": strs(ch, &l2), "status": status});
    ch.push(ev);
}

pub fn gen_optseqs(ch: &mut Chunker, r: &mut Rng, scale: usize) {
    let names = ["width", "ii", "si", "bw", "crlf", "sep", "splitter", "alg"];
    for _ in 0..300 * scale {
        let n = r.below(7);
        let mut ops = Vec::new();
        for _ in 0..n {
            let k = *r.pick(&names);
            let v = match k {
                "width" => json!(*r.pick(&[0usize, 1, 7, 80, 99_999_999])),
                "ii" | "si" => {
                    let s = r.pick(INDENTS).to_string();
                    ch.cps(&s)
                }
                "bw" | "crlf" => json!(r.chance(1, 2)),
                "sep" => json!(*r.pick(&["ascii", "uax"])),
                "splitter" => json!(*r.pick(&["none", "hyphen"])),
                _ => json!(*r.pick(&["ff", "opt"])),
            };
            ops.push(json!([k, v]));
        }
        rec_optseq(ch, *r.pick(&[0usize, 3, 80, usize::MAX]), &ops);
    }
}

pub fn gen_c08_pairs(ch: &mut Chunker, r: &mut Rng, scale: usize) {
    // indent pairs of equal display width and emptiness but different characters / byte lengths
    let classes: &[&[&str]] = &[&["> ", "# ", "\u{4f60}", "--", "\u{1b}[1m>\u{1b}[0m "], &["-", "*", ">", "\u{e9}"], &["    ", "\u{4f60}\u{597d}", ">>> ", "\u{ff28}//"], &[""], &["\t", "\u{301}", "\u{200b}"]];
    let ocfg = OptCfg { indents: false, custom_splitters: true, algs: &[0, 1, 2], crlf: true };
    for i in 0..350 * scale {
        let tc = TextCfg { max_words: 6, max_paras: 3, ansi: if i % 4 == 0 { Ansi::WellFormed } else { Ansi::None }, unicode: true, ctrl: false, crlf: false };
        let text = if i % 6 == 0 { gen_alpha(r, ALPHA_WRAP, 12) } else { gen_text(r, &tc) };
        // partner indents are chosen by the oracle width of this feature build (equal width, equal emptiness)
        let all: Vec<&str> = classes.iter().flat_map(|c| c.iter().copied()).collect();
        let partner = |r: &mut Rng, x: &str| -> String {
            let c: Vec<&str> = all.iter().copied().filter(|y| display_width_oracle(y) == display_width_oracle(x) && y.is_empty() == x.is_empty()).collect();
            r.pick(&c).to_string()
        };
        let ii1 = r.pick(&all).to_string();
        // a third of the pairs start from identical initial and subsequent indents (their partners usually differ)
        let si1 = if r.chance(1, 3) { ii1.clone() } else { r.pick(&all).to_string() };
        let (ii2, si2) = (partner(r, &ii1), partner(r, &si1));
        let widths = widths_for(r, &text, &ii1, &si1, false);
        for _ in 0..4 {
            let w_ = *r.pick(&widths);
            let mut o1 = gen_opts(r, &ocfg, w_);
            o1.crlf = false;
            let mut o2 = o1.clone();
            o1.ii = ii1.clone();
            o1.si = si1.clone();
            o2.ii = ii2.clone();
            o2.si = si2.clone();
            rec_c08(ch, &text, &o1, &o2);
        }
    }
}

// ---------------------------------------------------------------------------------------------
// C09
// ---------------------------------------------------------------------------------------------

pub fn rec_c09(ch: &mut Chunker, a: &str, b: &str, a2: &str, o: &Opts) {
    let oj = match o.json(ch) {
        Some(j) => j,
        None => return,
    };
    let nl = o.ending();
    let tab = format!("{}{}{}", a, nl, b);
    let ta2b = format!("{}{}{}", a2, nl, b);
    let hascr = tab.contains('\r');
    let tcr = tab.replace('\n', "\r\n");
    let mut ocr = o.clone();
    ocr.crlf = true;
    let r = guarded(&|| format!("c09 {:?} {:?} {:?} {}", a, b, a2, o.describe()), || {
        let w = |t: &str, o: &Opts| -> Vec<String> { textwrap::wrap(t, o.to_options()).iter().map(|l| l.to_string()).collect() };
        let (ra, rb, ra2, rab, ra2b) = (w(a, o), w(b, o), w(a2, o), w(&tab, o), w(&ta2b, o));
        let fab = textwrap::fill(&tab, o.to_options());
        let (wcr, fcr) = if !hascr && !o.crlf { (w(&tcr, &ocr), textwrap::fill(&tcr, ocr.to_options())) } else { (vec![], String::new()) };
        (ra, rb, ra2, rab, ra2b, fab, wcr, fcr)
    });
    let ev = match r {
        Ok((ra, rb, ra2, rab, ra2b, fab, wcr, fcr)) => json!({
            "ev": "c09", "a": ch.cps(a), "b": ch.cps(b), "a2": ch.cps(a2), "o": oj, "tab": ch.cps(&tab), "ta2b": ch.cps(&ta2b),
            "ra": strs(ch, &ra), "rb": strs(ch, &rb), "ra2": strs(ch, &ra2), "rab": strs(ch, &rab), "ra2b": strs(ch, &ra2b), "fab": ch.cps(&fab),
            "hascr": hascr, "tcr": ch.cps(&tcr), "wcr": strs(ch, &wcr), "fcr": ch.cps(&fcr), "status": "ok"}),
        Err(_) => json!({
            "ev": "c09", "a": ch.cps(a), "b": ch.cps(b), "a2": ch.cps(a2), "o": oj, "tab": ch.cps(&tab), "ta2b": ch.cps(&ta2b),
            "ra": [], "rb": [], "ra2": [], "rab": [], "ra2b": [], "fab": [], "hascr": hascr, "tcr": ch.cps(&tcr), "wcr": [], "fcr": [], "status": "panic"}),
    };
    ch.push(ev);
}

fn gen_c09(ch: &mut Chunker, r: &mut Rng, _thorough: bool, scale: usize) {
    let ocfg = OptCfg { indents: true, custom_splitters: true, algs: &[0, 1, 2], crlf: true };
    // stray CR / LF: under the CRLF option a lone LF or CR is ordinary text of a paragraph (a paragraph may *end* in CR),
    // under the LF option a CR is; every short a, b over {a, space, CR, LF}
    let small = all_strings(&['a', ' ', '\r', '\n'], 3);
    for (i, a) in small.iter().enumerate() {
        for (j, b) in small.iter().enumerate() {
            if (i * 5 + j) % 11 != 0 {
                continue;
            }
            let a2 = &small[(i * 7 + j * 3 + 1) % small.len()];
            for w in [1usize, 3] {
                let mut o = Opts::new(w);
                o.sep = Sep::Ascii;
                o.alg = Alg::FF;
                o.splitter = Splitter::None;
                o.crlf = (i + j + w) % 3 != 0;
                if (i + j) % 4 == 0 {
                    o.si = "> ".to_string();
                }
                rec_c09(ch, a, b, a2, &o);
            }
        }
    }
    for i in 0..450 * scale {
        let crlf = i % 4 == 0;
        let tc = TextCfg { max_words: 5, max_paras: 2, ansi: if i % 5 == 0 { Ansi::WellFormed } else { Ansi::None }, unicode: true, ctrl: i % 7 == 0, crlf };
        let mk = |r: &mut Rng| match r.below(8) {
            0 => String::new(),
            1 => "  ".to_string(),
            2 => gen_alpha(r, ALPHA_WRAP, 8),
            _ => gen_text(r, &tc),
        };
        let (a, b, a2) = (mk(r), mk(r), mk(r));
        let probe = gen_opts(r, &ocfg, 10);
        let widths = widths_for(r, &format!("{}\n{}", a, b), &probe.ii, &probe.si, false);
        for _ in 0..4 {
            let w_ = *r.pick(&widths);
            let mut o = gen_opts(r, &ocfg, w_);
            o.ii = probe.ii.clone();
            o.si = probe.si.clone();
            if r.chance(1, 3) {
                o.ii.clear();
                o.si.clear();
            }
            o.crlf = crlf && r.chance(1, 2);
            rec_c09(ch, &a, &b, &a2, &o);
            rec_fill(ch, &format!("{}{}{}", a, o.ending(), b), &o, "C09");
        }
    }
}

// ---------------------------------------------------------------------------------------------
// C13
// ---------------------------------------------------------------------------------------------

pub fn rec_c13(ch: &mut Chunker, col: &str, o: &Opts) {
    let oj = match o.json(ch) {
        Some(j) => j,
        None => return,
    };
    let plain = strip_own(col);
    let r = guarded(&|| format!("c13 {:?} {}", col, o.describe()), || {
        let rc: Vec<String> = textwrap::wrap(col, o.to_options()).iter().map(|l| l.to_string()).collect();
        let rp: Vec<String> = textwrap::wrap(&plain, o.to_options()).iter().map(|l| l.to_string()).collect();
        (rc, rp)
    });
    let (rc, rp, status) = match r {
        Ok((a, b)) => (a, b, "ok"),
        Err(_) => (vec![], vec![], "panic"),
    };
    let ev = json!({"ev": "c13", "col": ch.cps(col), "plain": ch.cps(&plain), "o": oj, "rc": strs(ch, &rc), "rp": strs(ch, &rp), "status": status});
    ch.push(ev);
}

fn colourise(r: &mut Rng, plain: &str) -> String {
    // insert SGR / OSC-8 sequences before, inside and after words
    let chars: Vec<char> = plain.chars().collect();
    let mut out = String::new();
    for (i, &c) in chars.iter().enumerate() {
        let prev_space = i == 0 || chars[i - 1] == ' ' || chars[i - 1] == '\n';
        let is_space = c == ' ' || c == '\n';
        if !is_space && ((prev_space && r.chance(1, 3)) || r.chance(1, 12)) {
            out.push_str(*r.pick(ANSI_COLOUR));
            if r.chance(1, 5) {
                out.push_str(*r.pick(ANSI_COLOUR));
            }
        }
        out.push(c);
        let next_space = i + 1 == chars.len() || chars[i + 1] == ' ' || chars[i + 1] == '\n';
        if !is_space && next_space && r.chance(1, 3) {
            out.push_str(*r.pick(ANSI_COLOUR));
        }
    }
    out
}

fn gen_c13(ch: &mut Chunker, r: &mut Rng, _thorough: bool, scale: usize) {
    let ocfg = OptCfg { indents: true, custom_splitters: false, algs: &[0, 1, 2], crlf: false };
    for i in 0..450 * scale {
        let tc = TextCfg { max_words: 6, max_paras: 2, ansi: Ansi::None, unicode: true, ctrl: false, crlf: false };
        let plain = if i % 6 == 0 { gen_alpha(r, &['a', 'b', ' ', '-', '\u{4f60}', '\u{e9}', '\n'], 12) } else { gen_text(r, &tc) };
        let col = colourise(r, &plain);
        let widths = widths_for(r, &plain, "", "", false);
        for _ in 0..5 {
            let w_ = *r.pick(&widths);
            let mut o = gen_opts(r, &ocfg, w_);
            if o.ii.contains('\u{1b}') {
                o.ii = "> ".into();
            }
            if o.si.contains('\u{1b}') {
                o.si = "  ".into();
            }
            rec_c13(ch, &col, &o);
        }
    }
}

// ---------------------------------------------------------------------------------------------
// C14
// ---------------------------------------------------------------------------------------------

pub fn rec_c14(ch: &mut Chunker, text: &str, o: &Opts) {
    let oj = match o.json(ch) {
        Some(j) => j,
        None => return,
    };
    let paras = paras_json(ch, text, o);
    let r = guarded(&|| format!("c14 {:?} {}", text, o.describe()), || {
        let f1 = textwrap::fill(text, o.to_options());
        let f2 = textwrap::fill(&f1, o.to_options());
        (f1, f2)
    });
    let (f1, f2, status) = match r {
        Ok((a, b)) => (a, b, "ok"),
        Err(_) => (String::new(), String::new(), "panic"),
    };
    let ev = json!({"ev": "c14", "text": ch.cps(text), "o": oj, "paras": paras, "f1": ch.cps(&f1), "f2": ch.cps(&f2), "status": status});
    ch.push(ev);
}

fn gen_c14(ch: &mut Chunker, r: &mut Rng, thorough: bool, scale: usize) {
    let seps: &[Sep] = if FULL { &[Sep::Ascii, Sep::Uax] } else { &[Sep::Ascii] };
    // exhaustive small texts
    let texts = all_strings(&['a', ' ', '-', '\n', '\u{4f60}'], if thorough { 6 } else { 5 });
    for (i, t) in texts.iter().enumerate() {
        for w in 0..5 {
            if (i + w) % (if thorough { 2 } else { 4 }) != 0 {
                continue;
            }
            let mut o = Opts::new(w);
            o.sep = seps[(i + w) % seps.len()];
            o.alg = if FULL && (i / 3 + w) % 2 == 0 { Alg::Opt(Pen::DEFAULT) } else { Alg::FF };
            o.bw = (i / 5 + w) % 3 != 0;
            o.splitter = if i % 2 == 0 { Splitter::Hyphen } else { Splitter::None };
            rec_c14(ch, t, &o);
        }
    }
    // carriage returns: a bare CR is ordinary text under the LF option (and CR LF is "text + ending"), under the CRLF
    // option a lone LF is text
    for (i, t) in all_strings(&['a', ' ', '\r', '\n'], 5).iter().enumerate() {
        for w in 1..5 {
            if (i + w) % 3 != 0 {
                continue;
            }
            let mut o = Opts::new(w);
            o.sep = seps[(i + w) % seps.len()];
            o.alg = if FULL && (i + w) % 4 == 0 { Alg::Opt(Pen::DEFAULT) } else { Alg::FF };
            o.splitter = Splitter::None;
            o.crlf = (i / 2 + w) % 3 == 0;
            rec_c14(ch, t, &o);
        }
    }
    // every zero-width-character word followed / surrounded by a short plain word, every width from 1
    for (zi, z) in ZW_WORDS.iter().enumerate() {
        for (ai, a) in ["I", "to", "the", "x1"].iter().enumerate() {
            for text in [format!("{} {}", z, a), format!("{} {} {}", a, z, a)] {
                for w in 1..=display_width_oracle(&text).min(9) {
                    let mut o = Opts::new(w);
                    o.sep = Sep::Ascii;
                    o.alg = Alg::FF;
                    o.bw = (zi + ai + w) % 5 != 0;
                    o.splitter = if (zi + ai) % 2 == 0 { Splitter::None } else { Splitter::Hyphen };
                    rec_c14(ch, &text, &o);
                }
            }
        }
    }
    // words containing zero-width characters (DEL, C1, ZWSP, combining marks ...) that get force-broken: every width from 1
    for i in 0..60 * scale {
        let n = r.range(2, 4);
        let text = (0..n).map(|k| if (i + k) % 3 == 2 { *r.pick(ASCII_WORDS) } else { *r.pick(ZW_WORDS) }).collect::<Vec<_>>().join(" ");
        for w in 1..=display_width_oracle(&text).min(9) {
            let mut o = Opts::new(w);
            o.sep = Sep::Ascii;
            o.alg = Alg::FF;
            o.bw = i % 4 != 0;
            o.splitter = if i % 2 == 0 { Splitter::None } else { Splitter::Hyphen };
            rec_c14(ch, &text, &o);
        }
    }
    let ocfg = OptCfg { indents: false, custom_splitters: false, algs: &[0, 0, 1, 2], crlf: true };
    for i in 0..400 * scale {
        let crlf = i % 5 == 0;
        let tc = TextCfg { max_words: 7, max_paras: 3, ansi: if i % 4 == 0 { Ansi::WellFormed } else if i % 4 == 1 { Ansi::Any } else { Ansi::None }, unicode: true, ctrl: i % 3 == 0, crlf };
        let text = if i % 6 == 0 { gen_alpha(r, ALPHA_WRAP, 14) } else if i % 6 == 3 { gen_alpha(r, ALPHA_ADVERSARIAL, 10) } else { gen_text(r, &tc) };
        let widths = widths_for(r, &text, "", "", true);
        for _ in 0..5 {
            let w_ = *r.pick(&widths);
            let mut o = gen_opts(r, &ocfg, w_);
            o.crlf = crlf && r.chance(1, 2);
            rec_c14(ch, &text, &o);
        }
    }
}

// ---------------------------------------------------------------------------------------------
// C15 / C16
// ---------------------------------------------------------------------------------------------

fn unfill_json(ch: &mut Chunker, text: &str, o: &textwrap::Options<'_>) -> Value {
    json!({"text": ch.cps(text), "ii": ch.cps(o.initial_indent), "si": ch.cps(o.subsequent_indent), "width": alpha(o.width).unwrap_or(-1),
           "crlf": o.line_ending == textwrap::LineEnding::CRLF})
}

pub fn rec_unfill(ch: &mut Chunker, s: &str) {
    textwrap::verif::install();
    let r = guarded(&|| format!("unfill({:?})", s), || {
        let (t, o) = textwrap::unfill(s);
        (t, o.initial_indent.to_string(), o.subsequent_indent.to_string(), o.width, o.line_ending == textwrap::LineEnding::CRLF)
    });
    let hk = hook_vals(&textwrap::verif::take(), "unfill.options");
    let ev = match r {
        Ok((t, ii, si, w, crlf)) => json!({"ev": "unfill", "s": ch.cps(s), "text": ch.cps(&t), "ii": ch.cps(&ii), "si": ch.cps(&si), "width": alpha(w).unwrap_or(-1), "crlf": crlf, "hk": hk, "status": "ok"}),
        Err(_) => json!({"ev": "unfill", "s": ch.cps(s), "text": [], "ii": [], "si": [], "width": 0, "crlf": false, "hk": [], "status": "panic"}),
    };
    ch.push(ev);
}

pub fn rec_c15(ch: &mut Chunker, para: &str, trail: bool, o: &Opts) {
    let oj = match o.json(ch) {
        Some(j) => j,
        None => return,
    };
    let r = guarded(&|| format!("c15 {:?} {}", para, o.describe()), || {
        let core = textwrap::fill(para, o.to_options());
        let filled = if trail { format!("{}{}", core, o.ending()) } else { core.clone() };
        (core, filled)
    });
    let (core, filled) = match r {
        Ok(x) => x,
        Err(_) => {
            let ev = json!({"ev": "c15", "para": ch.cps(para), "trail": trail, "o": oj, "core": [], "filled": [], "u": {"text": [], "ii": [], "si": [], "width": 0, "crlf": false}, "status": "panic"});
            ch.push(ev);
            return;
        }
    };
    let r2 = guarded(&|| format!("unfill({:?})", filled), || {
        let (t, uo) = textwrap::unfill(&filled);
        (t, uo.initial_indent.to_string(), uo.subsequent_indent.to_string(), uo.width, uo.line_ending == textwrap::LineEnding::CRLF)
    });
    let ev = match r2 {
        Ok((t, ii, si, w, crlf)) => {
            let u = json!({"text": ch.cps(&t), "ii": ch.cps(&ii), "si": ch.cps(&si), "width": alpha(w).unwrap_or(-1), "crlf": crlf});
            json!({"ev": "c15", "para": ch.cps(para), "trail": trail, "o": oj, "core": ch.cps(&core), "filled": ch.cps(&filled), "u": u, "status": "ok"})
        }
        Err(_) => json!({"ev": "c15", "para": ch.cps(para), "trail": trail, "o": oj, "core": ch.cps(&core), "filled": ch.cps(&filled), "u": {"text": [], "ii": [], "si": [], "width": 0, "crlf": false}, "status": "panic"}),
    };
    ch.push(ev);
    let _ = unfill_json;
}

const PLAIN_VOCAB: &[&str] = &[
    "a", "I", "to", "be", "or", "not", "foo", "bar", "baz", "x1", "42", "the", "quick", "brown", "hello", "world", "wrapping", "it's", "a.b", "x_y", "end.", "(z)", "q?",
    "r2d2", "caf\u{e9}",
    // multi-byte words (byte length and display width differ in both directions) and words that END in a prefix character
    "\u{e9}\u{e9}\u{e9}", "cr\u{e8}me", "\u{fc}ber", "na\u{ef}ve", "\u{65e5}\u{672c}\u{8a9e}", "\u{4f60}\u{597d}", "\u{1f602}", "e\u{301}e\u{301}", "C++", "C#", "src/", "x*", "a-", "ok>",
    // words that END in a whitespace character other than ' ' (legal words for the ASCII separator), and pure-ASCII words
    // containing DEL (one byte, no column)
    "aa\u{a0}", "b\u{3000}", "c\u{2003}", "dd\t", "ab\u{7f}", "\u{7f}x", "a\u{7f}\u{7f}b",
];

fn gen_plain_para(r: &mut Rng, maxw: usize) -> String {
    let n = r.range(1, maxw);
    (0..n).map(|_| r.pick(PLAIN_VOCAB).to_string()).collect::<Vec<_>>().join(" ")
}

fn gen_refill_opts(r: &mut Rng, width: usize) -> Opts {
    let mut o = Opts::new(width);
    o.ii = r.pick(PREFIX_INDENTS).to_string();
    o.si = r.pick(PREFIX_INDENTS).to_string();
    o.bw = r.chance(1, 4);
    o.sep = if FULL && r.chance(1, 3) { Sep::Uax } else { Sep::Ascii };
    o.splitter = Splitter::None;
    o.alg = if FULL { *r.pick(&[Alg::FF, Alg::Opt(Pen::DEFAULT), Alg::Opt(Pen::DEFAULT)]) } else { Alg::FF };
    o.crlf = r.chance(1, 3);
    o
}

fn gen_c15(ch: &mut Chunker, r: &mut Rng, thorough: bool, scale: usize) {
    for _ in 0..500 * scale {
        let para = gen_plain_para(r, 9);
        let probe = gen_refill_opts(r, 10);
        let mut widths = widths_for(r, &para, &probe.ii, &probe.si, false);
        widths.retain(|&w| w >= 3);
        for _ in 0..5 {
            let w_ = *r.pick(&widths);
            let mut o = gen_refill_opts(r, w_);
            if r.chance(1, 2) {
                o.ii = probe.ii.clone();
                o.si = probe.si.clone();
            }
            rec_c15(ch, &para, r.chance(1, 3), &o);
        }
    }
    // structural half: arbitrary strings
    for s in all_strings(&['a', ' ', '-', '>', '\n', '\r'], if thorough { 6 } else { 5 }) {
        rec_unfill(ch, &s);
    }
    for i in 0..800 * scale {
        let s = match i % 4 {
            0 => gen_alpha(r, &['a', ' ', '-', '>', '#', '\n', '\r', '\u{4f60}', '/', '*', '+'], 14),
            1 => gen_alpha(r, ALPHA_ADVERSARIAL, 14),
            _ => {
                let tc = TextCfg { max_words: 4, max_paras: 4, ansi: Ansi::Any, unicode: true, ctrl: true, crlf: i % 3 == 0 };
                let t = gen_text(r, &tc);
                if r.chance(1, 2) {
                    textwrap::indent(&t, *r.pick(PREFIX_INDENTS))
                } else {
                    t
                }
            }
        };
        rec_unfill(ch, &s);
    }
}

pub fn rec_c16(ch: &mut Chunker, para: &str, trail: bool, o1: &Opts, o2: &Opts) {
    let mut o2x = o2.clone();
    o2x.ii = o1.ii.clone();
    o2x.si = o1.si.clone();
    let (j1, j2, j2x) = match (o1.json(ch), o2.json(ch), o2x.json(ch)) {
        (Some(a), Some(b), Some(c)) => (a, b, c),
        _ => return,
    };
    let r = guarded(&|| format!("c16 {:?} {} -> {}", para, o1.describe(), o2.describe()), || {
        let core = textwrap::fill(para, o1.to_options());
        let filled = if trail { format!("{}{}", core, o1.ending()) } else { core.clone() };
        let refilled = textwrap::refill(&filled, o2.to_options());
        let direct = textwrap::fill(para, o2x.to_options());
        (core, filled, refilled, direct)
    });
    let ev = match r {
        Ok((core, filled, refilled, direct)) => json!({"ev": "c16", "para": ch.cps(para), "trail": trail, "o1": j1, "o2": j2, "o2x": j2x, "core": ch.cps(&core),
            "filled": ch.cps(&filled), "refilled": ch.cps(&refilled), "direct": ch.cps(&direct), "status": "ok"}),
        Err(_) => json!({"ev": "c16", "para": ch.cps(para), "trail": trail, "o1": j1, "o2": j2, "o2x": j2x, "core": [], "filled": [], "refilled": [], "direct": [], "status": "panic"}),
    };
    ch.push(ev);
}

fn gen_c16(ch: &mut Chunker, r: &mut Rng, _thorough: bool, scale: usize) {
    for _ in 0..500 * scale {
        let para = gen_plain_para(r, 10);
        let probe = gen_refill_opts(r, 10);
        let mut widths = widths_for(r, &para, &probe.ii, &probe.si, false);
        widths.retain(|&w| w >= 3);
        for _ in 0..5 {
            let w_ = *r.pick(&widths);
            let mut o1 = gen_refill_opts(r, w_);
            o1.ii = probe.ii.clone();
            o1.si = probe.si.clone();
            let w2_ = *r.pick(&widths);
            let mut o2 = gen_refill_opts(r, w2_);
            o2.bw = o1.bw;
            rec_c16(ch, &para, r.chance(1, 3), &o1, &o2);
        }
    }
}

// ---------------------------------------------------------------------------------------------
// C17
// ---------------------------------------------------------------------------------------------

pub fn rec_c17(ch: &mut Chunker, text: &str, width: usize) {
    let wj = match alpha(width) {
        Some(w) => w,
        None => return,
    };
    textwrap::verif::install();
    let r = guarded(&|| format!("fill_inplace({:?}, {})", text, width), || {
        let mut s = text.to_string();
        textwrap::fill_inplace(&mut s, width);
        let o = textwrap::Options::new(width)
            .break_words(false)
            .word_separator(textwrap::WordSeparator::AsciiSpace)
            .wrap_algorithm(textwrap::WrapAlgorithm::FirstFit)
            .word_splitter(textwrap::WordSplitter::NoHyphenation);
        let wl: Vec<String> = textwrap::wrap(text, o).iter().map(|l| l.to_string()).collect();
        (s, wl)
    });
    let hk = hook_vals(&textwrap::verif::take(), "fill_inplace.index");
    let ev = match r {
        Ok((s, wl)) => json!({"ev": "c17", "text": ch.cps(text), "width": wj, "res": ch.cps(&s), "wl": strs(ch, &wl), "hk": hk, "status": "ok"}),
        Err(_) => json!({"ev": "c17", "text": ch.cps(text), "width": wj, "res": [], "wl": [], "hk": [], "status": "panic"}),
    };
    ch.push(ev);
}

fn gen_c17(ch: &mut Chunker, r: &mut Rng, thorough: bool, scale: usize) {
    for t in all_strings(&['a', ' ', '\u{e9}', '\n'], if thorough { 7 } else { 6 }) {
        for w in 0..5 {
            if thorough || (t.len() + w) % 2 == 0 {
                rec_c17(ch, &t, w);
            }
        }
    }
    for i in 0..600 * scale {
        let tc = TextCfg { max_words: 7, max_paras: 3, ansi: if i % 5 == 0 { Ansi::Any } else { Ansi::None }, unicode: true, ctrl: i % 4 == 0, crlf: i % 6 == 0 };
        let text = if i % 5 == 1 { gen_alpha(r, ALPHA_ADVERSARIAL, 14) } else { gen_text(r, &tc) };
        for w in widths_for(r, &text, "", "", true).into_iter().take(12) {
            rec_c17(ch, &text, w);
        }
    }
    // a non-ASCII word next to an escape sequence whose payload contains spaces (fill_inplace and wrap both measure word
    // by word; a whole-line measurement would hide the payload): every width from the display width to the byte length
    for (i, seq) in ["\u{1b}]8;;a b c d e f\u{7}", "\u{1b}]0;my title\u{1b}\\", "\u{1b}[3 m", "\u{1b}]a b\u{7}", "\u{1b}[1 2 3"].iter().enumerate() {
        for pre in ["\u{e9} ", "\u{4f60}\u{597d} ", "ab ", ""] {
            for post in ["x", " x y", "\u{e9}"] {
                let text = format!("{}{}{}", pre, seq, post);
                let dw = display_width_oracle(&text);
                for w in dw.saturating_sub(1)..=text.len() + 1 {
                    if (w + i) % 2 == 0 || w <= dw + 2 {
                        rec_c17(ch, &text, w);
                    }
                }
            }
        }
    }
}

// ---------------------------------------------------------------------------------------------
// C18 / C19
// ---------------------------------------------------------------------------------------------

fn hook_vals(evs: &[textwrap::verif::Event], site: &str) -> Vec<Vec<i64>> {
    evs.iter().filter(|e| e.site == site).map(|e| e.vals.clone()).collect()
}

pub fn rec_dedent(ch: &mut Chunker, s: &str) {
    textwrap::verif::install();
    let r = guarded(&|| format!("dedent({:?})", s), || textwrap::dedent(s));
    let hk = hook_vals(&textwrap::verif::take(), "dedent.margin");
    let ev = match r {
        Ok(res) => json!({"ev": "dedent", "s": ch.cps(s), "res": ch.cps(&res), "hk": hk, "status": "ok"}),
        Err(_) => json!({"ev": "dedent", "s": ch.cps(s), "res": [], "hk": [], "status": "panic"}),
    };
    ch.push(ev);
}

pub fn rec_c18(ch: &mut Chunker, s: &str, p: &str) {
    let r = guarded(&|| format!("c18 {:?} {:?}", s, p), || {
        let ind = textwrap::indent(s, p);
        let d1 = textwrap::dedent(s);
        let d2 = textwrap::dedent(&d1);
        let d3 = textwrap::dedent(&ind);
        (ind, d1, d2, d3)
    });
    let ev = match r {
        Ok((ind, d1, d2, d3)) => json!({"ev": "c18", "s": ch.cps(s), "p": ch.cps(p), "ind": ch.cps(&ind), "d1": ch.cps(&d1), "d2": ch.cps(&d2), "d3": ch.cps(&d3), "status": "ok"}),
        Err(_) => json!({"ev": "c18", "s": ch.cps(s), "p": ch.cps(p), "ind": [], "d1": [], "d2": [], "d3": [], "status": "panic"}),
    };
    ch.push(ev);
}

pub fn rec_indent(ch: &mut Chunker, s: &str, p: &str) {
    let r = guarded(&|| format!("indent({:?}, {:?})", s, p), || textwrap::indent(s, p));
    let ev = match r {
        Ok(res) => json!({"ev": "indent", "s": ch.cps(s), "p": ch.cps(p), "res": ch.cps(&res), "status": "ok"}),
        Err(_) => json!({"ev": "indent", "s": ch.cps(s), "p": ch.cps(p), "res": [], "status": "panic"}),
    };
    ch.push(ev);
}

/// a margin of 1-3 characters drawn from *all* Unicode whitespace (minus line breaks)
pub fn rand_margin(r: &mut Rng) -> String {
    let ws: Vec<char> = UNICODE_WS.iter().copied().filter(|c| !matches!(c, '\u{b}' | '\u{c}' | '\u{85}' | '\u{2028}' | '\u{2029}')).collect();
    (0..r.range(1, 3)).map(|_| *r.pick(&ws)).collect()
}

pub fn gen_margin_text(r: &mut Rng) -> String {
    if r.chance(1, 3) {
        // margins that share a prefix and diverge at different whitespace characters
        let common = rand_margin(r);
        let n = r.range(2, 5);
        let mut s = String::new();
        for i in 0..n {
            match r.below(8) {
                0 => s.push_str(&rand_margin(r)),
                _ => {
                    s.push_str(&common);
                    if r.chance(1, 2) {
                        s.push_str(&rand_margin(r));
                    }
                    s.push_str(*r.pick(&["foo", "x", "\u{4f60}", "bar baz"]));
                }
            }
            if i + 1 < n || r.chance(1, 2) {
                s.push('\n');
            }
        }
        return s;
    }
    let margins = ["", " ", "  ", "    ", "\t", " \t", "\t ", "  \t", "\u{a0}", "\u{3000} ", "   "];
    let bodies = ["foo", "bar baz", "x", "  y", "\tz", "end ", "a\tb", "\u{4f60}", ""];
    let n = r.range(1, 6);
    let mut s = String::new();
    let base = r.pick(&margins).to_string();
    for i in 0..n {
        match r.below(10) {
            0 => {}                                   // empty line
            1 => s.push_str(*r.pick(&margins)),        // whitespace-only line of any shape
            2 => s.push_str(&base),                   // whitespace-only line equal to the margin
            _ => {
                s.push_str(&base);
                if r.chance(1, 3) {
                    s.push_str(*r.pick(&margins));
                }
                s.push_str(*r.pick(&bodies));
            }
        }
        if i + 1 < n || r.chance(1, 2) {
            s.push_str(if r.chance(1, 6) { "\r\n" } else { "\n" });
        }
    }
    s
}

fn gen_c18(ch: &mut Chunker, r: &mut Rng, thorough: bool, scale: usize) {
    let prefixes = ["", " ", "  ", "\t", " \t", "\u{a0}", "    ", "\u{3000}"];
    for s in all_strings(&['a', ' ', '\t', '\n', '\r'], if thorough { 7 } else { 6 }) {
        rec_dedent(ch, &s);
        if s.len() % 2 == 0 {
            rec_c18(ch, &s, prefixes[s.len() % prefixes.len()]);
        }
    }
    // whitespace characters that are not line breaks for str::lines() although they "look like" ones (VT, FF, NEL, LS),
    // and a multi-byte space: every short text
    for s in all_strings(&['a', ' ', '\u{b}', '\u{85}', '\u{2028}', '\n'], if thorough { 5 } else { 4 }) {
        rec_dedent(ch, &s);
        if s.len() % 3 == 0 {
            rec_c18(ch, &s, prefixes[s.len() % prefixes.len()]);
        }
    }
    for i in 0..1500 * scale {
        let s = if i % 5 == 0 { gen_alpha(r, &['a', 'b', ' ', ' ', '\t', '\n', '\r', '\u{a0}', '\u{4f60}'], 16) } else { gen_margin_text(r) };
        rec_dedent(ch, &s);
        rec_c18(ch, &s, *r.pick(&prefixes));
    }
}

fn gen_c19(ch: &mut Chunker, r: &mut Rng, thorough: bool, scale: usize) {
    let prefixes = ["", " ", "# ", "\t", "//  ", "> ", "  ", "\u{4f60} ", "\u{a0}", "x", " * ", "    // ", "\t# ", " x", "\u{a0}-\u{3000}", "\u{2003}|\u{2003}"];
    for s in all_strings(&['a', ' ', '\t', '\n', '\r'], if thorough { 6 } else { 5 }) {
        for (k, p) in prefixes.iter().enumerate() {
            if thorough || (s.len() + k) % 3 == 0 {
                rec_indent(ch, &s, p);
            }
        }
    }
    for s in all_strings(&['a', ' ', '\u{b}', '\u{85}', '\u{2028}', '\n'], 4) {
        for (k, p) in prefixes.iter().enumerate() {
            if (s.len() + k) % 4 == 0 {
                rec_indent(ch, &s, p);
            }
        }
    }
    for i in 0..1200 * scale {
        let s = if i % 4 == 0 { gen_alpha(r, &['a', ' ', '\t', '\n', '\r', '\u{a0}', '\u{4f60}', '-'], 16) } else { gen_margin_text(r) };
        if i % 3 == 0 {
            // a random prefix mixing whitespace and other characters in every position
            let p: String = (0..r.range(1, 4)).map(|_| if r.chance(1, 2) { *r.pick(UNICODE_WS) } else { rand_cp(r) }).collect();
            if !p.contains('\n') {
                rec_indent(ch, &s, &p);
                continue;
            }
        }
        rec_indent(ch, &s, *r.pick(&prefixes));
    }
}

// ---------------------------------------------------------------------------------------------
// C20
// ---------------------------------------------------------------------------------------------

pub fn rec_c20(ch: &mut Chunker, text: &str, cols: usize, o: &Opts, lg: &str, mg: &str, rg: &str) {
    let oj = match o.json(ch) {
        Some(j) => j,
        None => return,
    };
    // the column width at which the reference wrap call is made (re-checked by the specification)
    let dw = |s: &str| textwrap::core::display_width(s);
    let inner = o.width.saturating_sub(dw(lg)).saturating_sub(dw(rg)).saturating_sub(dw(mg).saturating_mul(cols.saturating_sub(1)));
    let cw = if cols == 0 { 1 } else { std::cmp::max(inner / cols, 1) };
    let mut oc = o.clone();
    oc.width = cw;
    let wl: Vec<String> = guarded(&|| format!("wrap for c20 {:?}", text), || textwrap::wrap(text, oc.to_options()).iter().map(|l| l.to_string()).collect()).unwrap_or_default();
    textwrap::verif::install();
    let r = guarded(&|| format!("wrap_columns({:?}, {}, {}, {:?}, {:?}, {:?})", text, cols, o.describe(), lg, mg, rg), || {
        textwrap::wrap_columns(text, cols, o.to_options(), lg, mg, rg)
    });
    let hk = hook_vals(&textwrap::verif::take(), "wrap_columns.layout");
    let (rows, status) = match r {
        Ok(rows) => (rows, "ok"),
        Err(_) => (vec![], "panic"),
    };
    let ev = json!({"ev": "c20", "text": ch.cps(text), "cols": cols, "o": oj, "lg": ch.cps(lg), "mg": ch.cps(mg), "rg": ch.cps(rg),
                    "cw": alpha(cw).unwrap_or(-1), "wl": strs(ch, &wl), "rows": strs(ch, &rows), "hk": hk, "status": status});
    ch.push(ev);
}

fn gen_c20(ch: &mut Chunker, r: &mut Rng, thorough: bool, scale: usize) {
    let gaps = ["", "|", " | ", "\u{4f60}", "  ", "| ", " |", "\u{e9}", "\u{1b}", "\u{1b}[", "\u{1b}]8;;x", "\u{1b}[1m|\u{1b}[0m"];
    let mk = |bw: bool, width: usize| {
        let mut o = Opts::new(width);
        o.bw = bw;
        o
    };
    // zero-width characters (combining mark, DEL) at widths 0-3: the column width is clamped to 1 while the reference
    // wrap must use the same clamped width
    for t in all_strings(&['a', ' ', '\u{301}', '\u{7f}'], 4) {
        for cols in 1..=2 {
            for w in 0..4 {
                if (t.len() + cols + w) % 2 == 0 {
                    rec_c20(ch, &t, cols, &mk((t.len() + w) % 3 != 0, w), "", ["", "|"][w % 2], "");
                }
            }
        }
    }
    for t in all_strings(&['a', ' ', '\u{ff28}'], if thorough { 5 } else { 4 }) {
        for cols in 1..=3 {
            for w in 0..9 {
                if !thorough && (t.len() + cols + w) % 3 != 0 {
                    continue;
                }
                for bw in [true, false] {
                    let g = (t.len() + cols + w) % 3;
                    rec_c20(ch, &t, cols, &mk(bw, w), ["", "|", "\u{4f60}"][g], ["", "|", "\u{4f60}"][(g + 1) % 3], ["", "|", "\u{4f60}"][(g + 2) % 3]);
                }
            }
        }
    }
    let ocfg = OptCfg { indents: false, custom_splitters: false, algs: &[0, 1], crlf: false };
    for i in 0..500 * scale {
        let tc = TextCfg { max_words: 8, max_paras: 2, ansi: Ansi::None, unicode: true, ctrl: false, crlf: false };
        let text = if i % 5 == 0 { gen_alpha(r, ALPHA_WRAP, 14) } else { gen_text(r, &tc) };
        for _ in 0..4 {
            let cols = *r.pick(&[1usize, 1, 2, 2, 3, 4, 5, 7]);
            let width = *r.pick(&[0usize, 1, 2, 3, 5, 8, 10, 13, 20, 21, 30, 40, 80]);
            let mut o = gen_opts(r, &ocfg, width);
            if r.chance(1, 4) {
                o.ii = "> ".into();
                o.si = "  ".into();
            }
            rec_c20(ch, &text, cols, &o, *r.pick(&gaps), *r.pick(&gaps), *r.pick(&gaps));
        }
    }
    rec_c20(ch, "foo", 0, &Opts::new(10), "", "", "");

}

// ---------------------------------------------------------------------------------------------
// C04: adversarial totality
// ---------------------------------------------------------------------------------------------

fn gen_c04(ch: &mut Chunker, r: &mut Rng, thorough: bool, scale: usize) {
    let seps: &[Sep] = if FULL { &[Sep::Ascii, Sep::Uax] } else { &[Sep::Ascii] };
    let widths = [0usize, 1, 2, 3, 5, 8, 20, usize::MAX - 1, usize::MAX];
    let small_alpha: &[char] = &['a', ' ', '\u{1b}', '[', '\n', '\r', '\u{4f60}', '\u{301}', '-'];
    let mut texts: Vec<String> = all_strings(small_alpha, if thorough { 4 } else { 3 });
    for _ in 0..500 * scale {
        texts.push(gen_alpha(r, ALPHA_ADVERSARIAL, 16));
    }
    for _ in 0..200 * scale {
        let tc = TextCfg { max_words: 6, max_paras: 4, ansi: Ansi::Any, unicode: true, ctrl: true, crlf: true };
        texts.push(gen_text(r, &tc));
    }
    // margins made of every kind of Unicode whitespace, random scalar values, sequences with random payloads
    for i in 0..400 * scale {
        texts.push(match i % 3 {
            0 => gen_margin_text(r),
            1 => format!("{} {}{}", rand_word(r, 5), rand_word(r, 4), rand_seq(r)),
            _ => format!("{}{}-{}\n{}", rand_margin(r), rand_word(r, 3), rand_word(r, 3), gen_margin_text(r)),
        });
    }
    let ocfg = OptCfg { indents: true, custom_splitters: true, algs: &[0, 1, 2], crlf: true };
    for (i, t) in texts.iter().enumerate() {
        rec_dw(ch, t);
        for &sep in seps {
            rec_words(ch, t, sep);
        }
        rec_split(ch, t, *r.pick(&[Splitter::Hyphen, Splitter::Hyphen, Splitter::Half, Splitter::Every2]));
        rec_break(ch, t, *r.pick(&widths), r.chance(1, 2));
        rec_unfill(ch, t);
        rec_dedent(ch, t);
        rec_indent(ch, t, *r.pick(&["", " ", "# ", "\t", "\u{1b}", "\n"]));
        rec_c17(ch, t, *r.pick(&widths));
        for _ in 0..3 {
            let w_ = *r.pick(&widths);
            let mut o = gen_opts(r, &ocfg, w_);
            if r.chance(1, 3) {
                let big = [0usize, 1, 1000, usize::MAX, usize::MAX / 2, 1 << 53, 7];
                if let Alg::Opt(_) = o.alg {
                    o.alg = Alg::Opt(Pen { nline: *r.pick(&big), over: *r.pick(&big), frac: *r.pick(&big), short: *r.pick(&big), hyph: *r.pick(&big) });
                }
            }
            rec_call(ch, "wrap", t, &o);
            rec_call(ch, "fill", t, &o);
            rec_call(ch, "refill", t, &o);
            if i % 3 == 0 {
                let mut oc = o.clone();
                oc.width = *r.pick(&[0usize, 1, 2, 5, 10, 40]);
                let cols = r.range(1, 4);
                rec_call_columns(ch, t, cols, &oc, *r.pick(&["", "|", "\u{4f60}"]), *r.pick(&["", " | "]), *r.pick(&["", "|"]));
            }
        }
    }
    // sizes nobody writes down: a very wide table, a long run of blank lines
    let wide = Opts { sep: Sep::Ascii, alg: Alg::FF, ..Opts::new(70_000) };
    rec_call_columns(ch, "x", 1, &wide, "", "", "");
    rec_call_columns(ch, "a b c", 3, &Opts { width: 200_005, ..wide.clone() }, "|", "|", "|");
    let blanks = "\n".repeat(150_000);
    rec_call(ch, "refill", &format!("a{}b", blanks), &Opts { sep: Sep::Ascii, alg: Alg::FF, ..Opts::new(10) });
    rec_call(ch, "wrap", &blanks, &Opts { sep: Sep::Ascii, alg: Alg::FF, ..Opts::new(10) });
    gen_frags(ch, r, "C04", thorough, scale);
}

/// generic call event: arguments as a readable string, status only (for huge penalties / widths that cannot be logged numerically)
pub fn rec_call(ch: &mut Chunker, f: &str, text: &str, o: &Opts) {
    if !supported(o) {
        return;
    }
    let desc = format!("{}({:?}, {})", f, text, o.describe());
    let r = guarded(&|| desc.clone(), || match f {
        "wrap" => {
            let _ = textwrap::wrap(text, o.to_options());
        }
        "fill" => {
            let _ = textwrap::fill(text, o.to_options());
        }
        "refill" => {
            let _ = textwrap::refill(text, o.to_options());
        }
        _ => {}
    });
    let ev = json!({"ev": "call", "f": f, "desc": desc, "text": ch.cps(text), "allowed": false, "status": if r.is_ok() { "ok" } else { "panic" }});
    ch.push(ev);
}

pub fn rec_call_columns(ch: &mut Chunker, text: &str, cols: usize, o: &Opts, lg: &str, mg: &str, rg: &str) {
    if !supported(o) {
        return;
    }
    let desc = format!("wrap_columns({:?}, {}, {}, {:?}, {:?}, {:?})", text, cols, o.describe(), lg, mg, rg);
    let r = guarded(&|| desc.clone(), || {
        let _ = textwrap::wrap_columns(text, cols, o.to_options(), lg, mg, rg);
    });
    let ev = json!({"ev": "call", "f": "wrap_columns", "desc": desc, "text": ch.cps(text), "allowed": cols == 0, "status": if r.is_ok() { "ok" } else { "panic" }});
    ch.push(ev);
}
