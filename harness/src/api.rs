//! Calls into the real crate and recording of what it did.  No judgement here.

use crate::rec::{alpha, Chunker};
use serde_json::{json, Value};
use std::borrow::Cow;
use std::panic::{catch_unwind, AssertUnwindSafe};
use std::sync::Mutex;
use std::time::Instant;
use textwrap::core::Word;
use textwrap::{LineEnding, Options, WordSeparator, WordSplitter, WrapAlgorithm};

// ---------------------------------------------------------------------------------------------
// watchdog + panic capture: a panic or hang of the code under test is data, not a harness failure
// ---------------------------------------------------------------------------------------------

pub static CURRENT: Mutex<Option<(Instant, String)>> = Mutex::new(None);

pub fn guarded<T>(desc: &dyn Fn() -> String, f: impl FnOnce() -> T) -> Result<T, String> {
    *CURRENT.lock().unwrap() = Some((Instant::now(), desc()));
    let r = catch_unwind(AssertUnwindSafe(f));
    *CURRENT.lock().unwrap() = None;
    match r {
        Ok(v) => Ok(v),
        Err(e) => {
            let msg = if let Some(s) = e.downcast_ref::<&str>() {
                s.to_string()
            } else if let Some(s) = e.downcast_ref::<String>() {
                s.clone()
            } else {
                "panic".to_string()
            };
            Err(msg)
        }
    }
}

// ---------------------------------------------------------------------------------------------
// options
// ---------------------------------------------------------------------------------------------

#[derive(Clone, Copy, PartialEq, Eq, Debug)]
pub enum Sep {
    Ascii,
    Uax,
    /// WordSeparator::Custom reading its cut points (byte offsets of word starts) from CUTMAP: lets the free
    /// opportunity sets TLC explores be replayed through the real split / break / wrap / re-assembly pipeline
    Custom,
}

thread_local! {
    /// line text -> byte offsets at which a new word starts (for Sep::Custom)
    pub static CUTMAP: std::cell::RefCell<std::collections::HashMap<String, Vec<usize>>> = std::cell::RefCell::new(Default::default());
}

fn custom_sep(line: &str) -> Box<dyn Iterator<Item = Word<'_>> + '_> {
    let cuts: Vec<usize> = CUTMAP.with(|m| m.borrow().get(line).cloned().unwrap_or_default());
    let mut bounds: Vec<usize> = vec![0];
    bounds.extend(cuts.into_iter().filter(|&c| c > 0 && c < line.len() && line.is_char_boundary(c)));
    bounds.push(line.len());
    bounds.dedup();
    let words: Vec<Word<'_>> = if line.is_empty() { vec![] } else { bounds.windows(2).map(|w| Word::from(&line[w[0]..w[1]])).collect() };
    Box::new(words.into_iter())
}
#[derive(Clone, Copy, PartialEq, Eq, Debug)]
pub enum Splitter {
    None,
    Hyphen,
    Every2,
    Every3,
    Half,
}
#[derive(Clone, Copy, PartialEq, Eq, Debug)]
pub struct Pen {
    pub nline: usize,
    pub over: usize,
    pub frac: usize,
    pub short: usize,
    pub hyph: usize,
}
impl Pen {
    pub const DEFAULT: Pen = Pen { nline: 1000, over: 2500, frac: 4, short: 25, hyph: 25 };
    pub fn is_default(&self) -> bool {
        *self == Pen::DEFAULT
    }
    pub fn json(&self) -> Value {
        let c = |x: usize| if x < 1_000_000 { x as i64 } else { -1 };
        json!({"nline": c(self.nline), "over": c(self.over), "frac": c(self.frac), "short": c(self.short), "hyph": c(self.hyph)})
    }
    pub fn small(&self) -> bool {
        [self.nline, self.over, self.frac, self.short, self.hyph].iter().all(|&x| x < 1_000_000)
    }
    #[cfg(feature = "full")]
    pub fn to_penalties(&self) -> textwrap::wrap_algorithms::Penalties {
        let mut p = textwrap::wrap_algorithms::Penalties::new();
        p.nline_penalty = self.nline;
        p.overflow_penalty = self.over;
        p.short_last_line_fraction = self.frac;
        p.short_last_line_penalty = self.short;
        p.hyphen_penalty = self.hyph;
        p
    }
}
#[derive(Clone, Copy, PartialEq, Eq, Debug)]
pub enum Alg {
    FF,
    Opt(Pen),
}

#[derive(Clone, Debug)]
pub struct Opts {
    pub width: usize,
    pub ii: String,
    pub si: String,
    pub bw: bool,
    pub sep: Sep,
    pub splitter: Splitter,
    pub alg: Alg,
    pub crlf: bool,
}

/// for every character of `s`: is the escape scanner in plain-text state *before* it (own scanner, as in `strip_own`)
pub fn outside_seq(s: &str) -> Vec<bool> {
    let cs: Vec<char> = s.chars().collect();
    let mut out = vec![false; cs.len()];
    let mut i = 0;
    while i < cs.len() {
        out[i] = true;
        if cs[i] != '\x1b' {
            i += 1;
            continue;
        }
        i += 1;
        if i >= cs.len() {
            break;
        }
        let c = cs[i];
        i += 1;
        if c == '[' {
            while i < cs.len() {
                let d = cs[i];
                i += 1;
                if ('\x40'..='\x7e').contains(&d) {
                    break;
                }
            }
        } else if c == ']' {
            let mut last = ']';
            while i < cs.len() {
                let d = cs[i];
                i += 1;
                if d == '\x07' || (d == '\\' && last == '\x1b') {
                    break;
                }
                last = d;
            }
        }
    }
    out
}

pub fn every_k(word: &str, k: usize) -> Vec<usize> {
    // a split point after every k-th character, but never directly after a space and never inside an escape sequence
    // (directly before the ESC of a sequence is allowed)
    let n = word.len();
    let outside = outside_seq(word);
    word.char_indices()
        .enumerate()
        .filter(|(cnt, (idx, _))| *cnt > 0 && cnt % k == 0 && *idx > 0 && *idx < n && !word[..*idx].ends_with(' ') && outside[*cnt])
        .map(|(_, (idx, _))| idx)
        .collect()
}
/// the documentation's example `|w| vec![w.len() / 2]`, in characters (0 for a one-character word)
fn half(word: &str) -> Vec<usize> {
    let n = word.chars().count();
    if n == 0 {
        return vec![0];     // exactly what the documented closure returns for the empty word (leading spaces of a paragraph)
    }
    let q = n / 2;
    let idx = word.char_indices().nth(q).map(|(i, _)| i).unwrap_or(0);
    if outside_seq(word)[q] && !(q > 0 && word[..idx].ends_with(' ')) {
        vec![idx]
    } else {
        vec![]
    }
}
fn every2(word: &str) -> Vec<usize> {
    every_k(word, 2)
}
fn every3(word: &str) -> Vec<usize> {
    every_k(word, 3)
}

impl Splitter {
    pub fn to_splitter(self) -> WordSplitter {
        match self {
            Splitter::None => WordSplitter::NoHyphenation,
            Splitter::Hyphen => WordSplitter::HyphenSplitter,
            Splitter::Every2 => WordSplitter::Custom(every2),
            Splitter::Every3 => WordSplitter::Custom(every3),
            Splitter::Half => WordSplitter::Custom(half),
        }
    }
    pub fn name(self) -> &'static str {
        match self {
            Splitter::None => "none",
            Splitter::Hyphen => "hyphen",
            Splitter::Every2 => "every2",
            Splitter::Every3 => "every3",
            Splitter::Half => "half",
        }
    }
}

impl Sep {
    pub fn to_separator(self) -> WordSeparator {
        match self {
            Sep::Ascii => WordSeparator::AsciiSpace,
            #[cfg(feature = "full")]
            Sep::Uax => WordSeparator::UnicodeBreakProperties,
            #[cfg(not(feature = "full"))]
            Sep::Uax => panic!("harness: UAX separator requested in the no-default-features build"),
            Sep::Custom => WordSeparator::Custom(custom_sep),
        }
    }
    pub fn name(self) -> &'static str {
        match self {
            Sep::Ascii => "ascii",
            Sep::Uax => "uax",
            Sep::Custom => "custom",
        }
    }
}

impl Opts {
    pub fn new(width: usize) -> Opts {
        Opts {
            width,
            ii: String::new(),
            si: String::new(),
            bw: true,
            sep: if cfg!(feature = "full") { Sep::Uax } else { Sep::Ascii },
            splitter: Splitter::Hyphen,
            alg: if cfg!(feature = "full") { Alg::Opt(Pen::DEFAULT) } else { Alg::FF },
            crlf: false,
        }
    }
    pub fn to_options(&self) -> Options<'_> {
        let alg = match self.alg {
            Alg::FF => WrapAlgorithm::FirstFit,
            #[cfg(feature = "full")]
            Alg::Opt(p) => WrapAlgorithm::OptimalFit(p.to_penalties()),
            #[cfg(not(feature = "full"))]
            Alg::Opt(_) => panic!("harness: optimal-fit requested in the no-default-features build"),
        };
        Options::new(self.width)
            .initial_indent(&self.ii)
            .subsequent_indent(&self.si)
            .break_words(self.bw)
            .word_separator(self.sep.to_separator())
            .word_splitter(self.splitter.to_splitter())
            .wrap_algorithm(alg)
            .line_ending(if self.crlf { LineEnding::CRLF } else { LineEnding::LF })
    }
    pub fn ending(&self) -> &'static str {
        if self.crlf {
            "\r\n"
        } else {
            "\n"
        }
    }
    /// JSON form; `None` when a number is outside the loggable bands
    pub fn json(&self, ch: &mut Chunker) -> Option<Value> {
        let (alg, pen) = match self.alg {
            Alg::FF => ("ff", Pen::DEFAULT),
            Alg::Opt(p) => ("opt", p),
        };
        if !pen.small() {
            return None;
        }
        Some(json!({
            "width": alpha(self.width)?,
            "ii": ch.cps(&self.ii), "si": ch.cps(&self.si),
            "bw": self.bw, "sep": self.sep.name(), "splitter": self.splitter.name(),
            "alg": alg, "pen": pen.json(), "crlf": self.crlf,
        }))
    }
    pub fn describe(&self) -> String {
        format!("{:?}", self)
    }
}

// ---------------------------------------------------------------------------------------------
// position helpers
// ---------------------------------------------------------------------------------------------

/// 1-based character position of byte offset `b` in `s` (which must be a char boundary)
pub fn char_pos(s: &str, b: usize) -> i64 {
    debug_assert!(s.is_char_boundary(b));
    s[..b].chars().count() as i64 + 1
}

/// byte offset of `sub` inside `base` if `sub` points into `base`'s buffer
pub fn offset_in(base: &str, sub: &str) -> Option<usize> {
    let b0 = base.as_ptr() as usize;
    let s0 = sub.as_ptr() as usize;
    if s0 >= b0 && s0 + sub.len() <= b0 + base.len() {
        Some(s0 - b0)
    } else {
        None
    }
}

/// The harness's own escape-sequence stripper (checked against the specification's StripSeq on
/// every event that logs it, never trusted).
pub fn strip_own(s: &str) -> String {
    let cs: Vec<char> = s.chars().collect();
    let mut out = String::new();
    let mut i = 0;
    while i < cs.len() {
        if cs[i] != '\x1b' {
            out.push(cs[i]);
            i += 1;
            continue;
        }
        // ESC: the next character is consumed whatever it is
        i += 1;
        if i >= cs.len() {
            break;
        }
        let c = cs[i];
        i += 1;
        if c == '[' {
            while i < cs.len() {
                let d = cs[i];
                i += 1;
                if ('\x40'..='\x7e').contains(&d) {
                    break;
                }
            }
        } else if c == ']' {
            let mut last = ']';
            while i < cs.len() {
                let d = cs[i];
                i += 1;
                if d == '\x07' || (d == '\\' && last == '\x1b') {
                    break;
                }
                last = d;
            }
        }
    }
    out
}

/// UAX #14 break opportunities of `stripped`, as numbers of characters before the break.
#[cfg(feature = "full")]
pub fn uax_opps(stripped: &str) -> Vec<usize> {
    unicode_linebreak::linebreaks(stripped).map(|(idx, _)| stripped[..idx].chars().count()).collect()
}
#[cfg(not(feature = "full"))]
pub fn uax_opps(_stripped: &str) -> Vec<usize> {
    Vec::new()
}

pub fn split_ending<'a>(text: &'a str, crlf: bool) -> Vec<&'a str> {
    if crlf {
        text.split("\r\n").collect()
    } else {
        text.split('\n').collect()
    }
}

/// per-paragraph oracle data for the Unicode separator
pub fn paras_json(ch: &mut Chunker, text: &str, o: &Opts) -> Value {
    let mut v = Vec::new();
    for p in split_ending(text, o.crlf) {
        if o.sep == Sep::Uax {
            let st = strip_own(p);
            let opps = uax_opps(&st);
            v.push(json!({"opps": opps, "st": ch.cps(&st)}));
        } else if o.sep == Sep::Custom {
            // the cut points handed to the custom separator, as 1-based character positions of word starts
            let cuts: Vec<i64> = CUTMAP.with(|m| m.borrow().get(p).cloned().unwrap_or_default()).into_iter()
                .filter(|&c| c > 0 && c < p.len() && p.is_char_boundary(c)).map(|c| char_pos(p, c)).collect();
            v.push(json!({"opps": cuts, "st": []}));
        } else {
            v.push(json!({"opps": [], "st": []}));
        }
    }
    Value::Array(v)
}

pub fn line_oracle_json(ch: &mut Chunker, line: &str, sep: Sep) -> Value {
    if sep == Sep::Uax {
        let st = strip_own(line);
        let opps = uax_opps(&st);
        json!({"opps": opps, "st": ch.cps(&st)})
    } else {
        json!({"opps": [], "st": []})
    }
}

// ---------------------------------------------------------------------------------------------
// recorders
// ---------------------------------------------------------------------------------------------

pub fn words_json(ch: &mut Chunker, line: &str, words: &[Word<'_>]) -> Value {
    // positions are 1-based character positions; a = -1 when the piece does not point into `line`
    let mut v = Vec::new();
    for w in words {
        let a = offset_in(line, w.word).map(|b| char_pos(line, b)).unwrap_or(-1);
        let wa = offset_in(line, w.whitespace).map(|b| char_pos(line, b)).unwrap_or(-1);
        v.push(json!({
            "a": a, "n": w.word.chars().count(), "wa": wa, "wn": w.whitespace.chars().count(),
            "t": ch.cps(w.word), "wt": ch.cps(w.whitespace), "pen": ch.cps(w.penalty), "w": alpha(w.width).unwrap_or(-1),
        }));
    }
    Value::Array(v)
}

pub fn rec_dw(ch: &mut Chunker, s: &str) {
    let r = guarded(&|| format!("display_width({:?})", s), || textwrap::core::display_width(s));
    let ev = match r {
        Ok(n) => json!({"ev": "dw", "s": ch.cps(s), "res": n, "status": "ok"}),
        Err(m) => json!({"ev": "dw", "s": ch.cps(s), "res": -1, "status": "panic", "msg": m}),
    };
    ch.push(ev);
}

pub fn rec_words(ch: &mut Chunker, line: &str, sep: Sep) {
    let r = guarded(&|| format!("find_words({:?}, {:?})", line, sep), || sep.to_separator().find_words(line).collect::<Vec<_>>());
    let orc = line_oracle_json(ch, line, sep);
    let ev = match r {
        Ok(ws) => json!({"ev": "words", "sep": sep.name(), "s": ch.cps(line), "orc": orc, "res": words_json(ch, line, &ws), "status": "ok"}),
        Err(m) => json!({"ev": "words", "sep": sep.name(), "s": ch.cps(line), "orc": orc, "res": [], "status": "panic", "msg": m}),
    };
    ch.push(ev);
}

/// split_words on the words found by the ASCII separator in `line` (so that whitespace is attached)
pub fn rec_split(ch: &mut Chunker, line: &str, sp: Splitter) {
    rec_split_pre(ch, line, sp, Splitter::None)
}

/// The same, but the input words are first split with `pre`, so that they carry penalties of their own
/// (split_words must keep the original whitespace and penalty on the last piece only).
pub fn rec_split_pre(ch: &mut Chunker, line: &str, sp: Splitter, pre: Splitter) {
    let splitter = sp.to_splitter();
    let presplitter = pre.to_splitter();
    let r = guarded(&|| format!("split_words({:?}, {:?}, pre {:?})", line, sp, pre), || {
        let found: Vec<Word<'_>> = WordSeparator::AsciiSpace.find_words(line).collect();
        let words: Vec<Word<'_>> = if pre == Splitter::None { found } else { textwrap::word_splitters::split_words(found, &presplitter).collect() };
        let pts: Vec<Vec<usize>> = words.iter().map(|w| splitter.split_points(w.word)).collect();
        let pieces: Vec<Word<'_>> = textwrap::word_splitters::split_words(words.clone(), &splitter).collect();
        (words, pts, pieces)
    });
    let ev = match r {
        Ok((words, pts, pieces)) => {
            // split points as 1-based character positions of the start of the next piece, per word
            let mut pj = Vec::new();
            for (w, ps) in words.iter().zip(pts.iter()) {
                let base = offset_in(line, w.word).unwrap_or(0);
                let v: Vec<i64> = ps.iter().map(|&b| if w.word.is_char_boundary(b) { char_pos(line, base + b) } else { -1 }).collect();
                pj.push(v);
            }
            json!({"ev": "split", "splitter": sp.name(), "pre": pre.name(), "s": ch.cps(line), "words": words_json(ch, line, &words), "pts": pj,
                   "res": words_json(ch, line, &pieces), "status": "ok"})
        }
        Err(m) => json!({"ev": "split", "splitter": sp.name(), "pre": pre.name(), "s": ch.cps(line), "words": [], "pts": [], "res": [], "status": "panic", "msg": m}),
    };
    ch.push(ev);
}

/// break_words / break_apart on the words found by the ASCII separator
pub fn rec_break(ch: &mut Chunker, line: &str, lim: usize, apart: bool) {
    let r = guarded(&|| format!("break_words({:?}, {})", line, lim), || {
        let words: Vec<Word<'_>> = WordSeparator::AsciiSpace.find_words(line).collect();
        let pieces: Vec<Word<'_>> = if apart {
            words.iter().flat_map(|w| w.break_apart(lim).collect::<Vec<_>>()).collect()
        } else {
            textwrap::core::break_words(words.clone(), lim)
        };
        (words, pieces)
    });
    let kind = if apart { "apart" } else { "words" };
    let ev = match r {
        Ok((words, pieces)) => json!({"ev": "break", "kind": kind, "s": ch.cps(line), "lim": alpha(lim).unwrap_or(-1),
                                      "words": words_json(ch, line, &words), "res": words_json(ch, line, &pieces), "status": "ok"}),
        Err(m) => json!({"ev": "break", "kind": kind, "s": ch.cps(line), "lim": alpha(lim).unwrap_or(-1), "words": [], "res": [], "status": "panic", "msg": m}),
    };
    ch.push(ev);
}

pub fn lines_json(ch: &mut Chunker, text: &str, lines: &[Cow<'_, str>]) -> Value {
    let mut v = Vec::new();
    for l in lines {
        // bp: 1-based character position of a borrowed line inside the caller's buffer,
        //     0 = owned, -1 = borrowed from somewhere else (e.g. a static "")
        let bp = match l {
            Cow::Owned(_) => 0,
            Cow::Borrowed(b) => offset_in(text, b).map(|o| char_pos(text, o)).unwrap_or(-1),
        };
        v.push(json!({"s": ch.cps(l), "bp": bp}));
    }
    Value::Array(v)
}

/// wrap paragraph by paragraph through the cfg(fuzzing) entry point: number of lines per paragraph
pub fn para_line_counts(text: &str, o: &Opts, expect: &[Cow<'_, str>]) -> (Vec<usize>, bool) {
    let options = o.to_options();
    let mut acc: Vec<Cow<'_, str>> = Vec::new();
    let mut counts = Vec::new();
    for p in split_ending(text, o.crlf) {
        let before = acc.len();
        textwrap::fuzzing::wrap_single_line(p, &options, &mut acc);
        counts.push(acc.len() - before);
    }
    let same = acc.len() == expect.len() && acc.iter().zip(expect.iter()).all(|(a, b)| a == b);
    (counts, same)
}

pub struct WrapOut {
    pub status: &'static str,
    pub lines: Vec<String>,
}

pub fn rec_wrap(ch: &mut Chunker, text: &str, o: &Opts, tag: &str) -> WrapOut {
    let oj = match o.json(ch) {
        Some(j) => j,
        None => return WrapOut { status: "skipped", lines: vec![] },
    };
    let paras = paras_json(ch, text, o);
    let r = guarded(&|| format!("wrap({:?}, {})", text, o.describe()), || {
        let options = o.to_options();
        let lines = textwrap::wrap(text, &options);
        let (pl, pc) = para_line_counts(text, o, &lines);
        let lj_owned: Vec<(String, i64)> = lines
            .iter()
            .map(|l| {
                let bp = match l {
                    Cow::Owned(_) => 0,
                    Cow::Borrowed(b) => offset_in(text, b).map(|x| char_pos(text, x)).unwrap_or(-1),
                };
                (l.to_string(), bp)
            })
            .collect();
        (lj_owned, pl, pc)
    });
    match r {
        Ok((lines, pl, pc)) => {
            let lj: Vec<Value> = lines.iter().map(|(s, bp)| json!({"s": ch.cps(s), "bp": bp})).collect();
            let tj = ch.cps(text);
            ch.push(json!({"ev": "wrap", "tag": tag, "text": tj, "o": oj, "paras": paras, "lines": lj, "pl": pl, "pc": pc, "status": "ok"}));
            WrapOut { status: "ok", lines: lines.into_iter().map(|(s, _)| s).collect() }
        }
        Err(m) => {
            let tj = ch.cps(text);
            ch.push(json!({"ev": "wrap", "tag": tag, "text": tj, "o": oj, "paras": paras, "lines": [], "pl": [], "pc": false, "status": "panic", "msg": m}));
            WrapOut { status: "panic", lines: vec![] }
        }
    }
}

pub fn rec_fill(ch: &mut Chunker, text: &str, o: &Opts, tag: &str) -> Option<String> {
    let oj = o.json(ch)?;
    let paras = paras_json(ch, text, o);
    let r = guarded(&|| format!("fill({:?}, {})", text, o.describe()), || {
        let options = o.to_options();
        let filled = textwrap::fill(text, &options);
        let lines: Vec<String> = textwrap::wrap(text, &options).iter().map(|l| l.to_string()).collect();
        (filled, lines)
    });
    match r {
        Ok((res, lines)) => {
            let lj: Vec<Value> = lines.iter().map(|s| ch.cps(s)).collect();
            let tj = ch.cps(text);
            let rj = ch.cps(&res);
            ch.push(json!({"ev": "fill", "tag": tag, "text": tj, "o": oj, "paras": paras, "res": rj, "wlines": lj, "status": "ok"}));
            Some(res)
        }
        Err(m) => {
            let tj = ch.cps(text);
            ch.push(json!({"ev": "fill", "tag": tag, "text": tj, "o": oj, "paras": paras, "res": [], "wlines": [], "status": "panic", "msg": m}));
            None
        }
    }
}

// ---------------------------------------------------------------------------------------------
// step-level recording of wrap() through the `verif-hooks` feature of the crate under test
// ---------------------------------------------------------------------------------------------

/// Record one wrap() call as a *group* of step events (w.begin, w.para, w.slow, w.ff, w.ffend, w.arr,
/// w.emit / w.emit0, w.pend, w.end) for validation against the step machine of spec/MC_Wrap.tla.
/// The markers w.ffend / w.pend are derived from the order of the hook events; the specification
/// checks that the corresponding machine action is enabled where a marker stands.
pub fn rec_wrap_steps(ch: &mut Chunker, text: &str, o: &Opts) {
    if o.width >= 100_000_000 {
        return;
    }
    let oj = match o.json(ch) {
        Some(j) => j,
        None => return,
    };
    let paras = paras_json(ch, text, o);
    textwrap::verif::install();
    let r = guarded(&|| format!("wrap({:?}, {})", text, o.describe()), || {
        let options = o.to_options();
        let lines = textwrap::wrap(text, &options);
        lines
            .iter()
            .map(|l| {
                let bp = match l {
                    Cow::Owned(_) => 0,
                    Cow::Borrowed(b) => offset_in(text, b).map(|x| char_pos(text, x)).unwrap_or(-1),
                };
                (l.to_string(), bp)
            })
            .collect::<Vec<_>>()
    });
    let evs = textwrap::verif::take();
    let tj = ch.cps(text);
    let is_ff = o.alg == Alg::FF;
    ch.push_raw(json!({"ev": "w.begin", "text": tj, "o": oj, "paras": paras}));
    // walk the hook events, inserting the markers
    let mut i = 0;
    let mut in_slow = false;
    let mut ff_open = false;
    let mut arr: Vec<i64> = Vec::new();
    let close_para = |ch: &mut Chunker, in_slow: &mut bool| {
        if *in_slow {
            ch.push_raw(json!({"ev": "w.pend"}));
            *in_slow = false;
        }
    };
    // number of words per emitted line of each slow paragraph, needed up front for optimal-fit
    let mut arrs: Vec<Vec<i64>> = Vec::new();
    {
        let mut cur: Option<Vec<i64>> = None;
        for e in &evs {
            match e.site {
                "wrap.slow" => {
                    if let Some(c) = cur.take() {
                        arrs.push(c);
                    }
                    cur = Some(Vec::new());
                }
                "wrap.emit" => {
                    if let Some(c) = cur.as_mut() {
                        c.push(e.vals[4]);
                    }
                }
                "wrap.emit_empty" => {
                    if let Some(c) = cur.as_mut() {
                        c.push(0);
                    }
                }
                _ => {}
            }
        }
        if let Some(c) = cur.take() {
            arrs.push(c);
        }
    }
    let mut slow_no = 0;
    while i < evs.len() {
        let e = &evs[i];
        match e.site {
            "wrap.para" => {
                if ff_open {
                    ch.push_raw(json!({"ev": "w.ffend"}));
                    ff_open = false;
                }
                close_para(ch, &mut in_slow);
                ch.push_raw(json!({"ev": "w.para", "nlines": e.vals[0], "fast": e.vals[1] == 1}));
            }
            "wrap.slow" => {
                in_slow = true;
                arr.clear();
                ch.push_raw(json!({"ev": "w.slow", "lw0": e.vals[0], "lw1": e.vals[1], "nfrags": e.vals[2]}));
                if !is_ff {
                    let a = arrs.get(slow_no).cloned().unwrap_or_default();
                    ch.push_raw(json!({"ev": "w.arr", "lens": a}));
                } else if e.vals[2] == 0 || true {
                    ff_open = true;
                }
                slow_no += 1;
            }
            "first_fit.step" => {
                ch.push_raw(json!({"ev": "w.ff", "i": e.vals[0], "lw": e.vals[1], "acc": e.vals[2], "brk": e.vals[3] == 1, "nl": e.vals[4]}));
            }
            "wrap.emit" | "wrap.emit_empty" => {
                if ff_open {
                    ch.push_raw(json!({"ev": "w.ffend"}));
                    ff_open = false;
                }
                if e.site == "wrap.emit" {
                    ch.push_raw(json!({"ev": "w.emit", "idx": e.vals[0], "len": e.vals[1], "ws": e.vals[2], "pen": e.vals[3], "nw": e.vals[4]}));
                } else {
                    ch.push_raw(json!({"ev": "w.emit0"}));
                }
            }
            _ => {}
        }
        i += 1;
    }
    if ff_open {
        ch.push_raw(json!({"ev": "w.ffend"}));
    }
    close_para(ch, &mut in_slow);
    match r {
        Ok(lines) => {
            let lj: Vec<Value> = lines.iter().map(|(s, bp)| json!({"s": ch.cps(s), "bp": bp})).collect();
            ch.push_raw(json!({"ev": "w.end", "lines": lj, "status": "ok"}));
        }
        Err(_) => ch.push_raw(json!({"ev": "w.end", "lines": [], "status": "panic"})),
    }
}

// ---------------------------------------------------------------------------------------------
// the Options builder as a little state machine: a sequence of builder calls and the resulting fields
// ---------------------------------------------------------------------------------------------

fn options_fields(ch: &mut Chunker, o: &Options<'_>) -> Value {
    let sep = if o.word_separator == WordSeparator::AsciiSpace {
        "ascii"
    } else {
        #[cfg(feature = "full")]
        {
            if o.word_separator == WordSeparator::UnicodeBreakProperties {
                "uax"
            } else {
                "custom"
            }
        }
        #[cfg(not(feature = "full"))]
        {
            "custom"
        }
    };
    let splitter = if o.word_splitter == WordSplitter::NoHyphenation {
        "none"
    } else if o.word_splitter == WordSplitter::HyphenSplitter {
        "hyphen"
    } else {
        "custom"
    };
    let (alg, pen) = match &o.wrap_algorithm {
        WrapAlgorithm::FirstFit => ("ff", Pen::DEFAULT),
        #[cfg(feature = "full")]
        WrapAlgorithm::OptimalFit(p) => (
            "opt",
            Pen { nline: p.nline_penalty, over: p.overflow_penalty, frac: p.short_last_line_fraction, short: p.short_last_line_penalty, hyph: p.hyphen_penalty },
        ),
        _ => ("custom", Pen::DEFAULT),
    };
    json!({"width": alpha(o.width).unwrap_or(-1), "ii": ch.cps(o.initial_indent), "si": ch.cps(o.subsequent_indent), "bw": o.break_words,
           "sep": sep, "splitter": splitter, "alg": alg, "pen": pen.json(), "crlf": o.line_ending == LineEnding::CRLF})
}

/// ops: [["width", n] | ["ii", cps] | ["si", cps] | ["bw", bool] | ["sep", name] | ["splitter", name] | ["alg", name] | ["crlf", bool]]
pub fn rec_optseq(ch: &mut Chunker, w0: usize, ops: &[Value]) {
    let strings: Vec<String> = ops
        .iter()
        .map(|op| op[1].as_array().map(|a| a.iter().map(|c| char::from_u32(c.as_u64().unwrap() as u32).unwrap()).collect()).unwrap_or_default())
        .collect();
    let mut o = Options::new(w0);
    for (i, op) in ops.iter().enumerate() {
        let v = &op[1];
        o = match op[0].as_str().unwrap_or("") {
            "width" => o.width(v.as_u64().unwrap_or(0) as usize),
            "ii" => o.initial_indent(&strings[i]),
            "si" => o.subsequent_indent(&strings[i]),
            "bw" => o.break_words(v.as_bool().unwrap_or(true)),
            "crlf" => o.line_ending(if v.as_bool().unwrap_or(false) { LineEnding::CRLF } else { LineEnding::LF }),
            "sep" => match v.as_str() {
                #[cfg(feature = "full")]
                Some("uax") => o.word_separator(WordSeparator::UnicodeBreakProperties),
                Some("ascii") => o.word_separator(WordSeparator::AsciiSpace),
                _ => o,
            },
            "splitter" => match v.as_str() {
                Some("none") => o.word_splitter(WordSplitter::NoHyphenation),
                Some("hyphen") => o.word_splitter(WordSplitter::HyphenSplitter),
                _ => o,
            },
            "alg" => match v.as_str() {
                Some("ff") => o.wrap_algorithm(WrapAlgorithm::FirstFit),
                #[cfg(feature = "full")]
                Some("opt") => o.wrap_algorithm(WrapAlgorithm::new_optimal_fit()),
                _ => o,
            },
            _ => o,
        };
    }
    let res = options_fields(ch, &o);
    let by_ref = options_fields(ch, &Options::from(&o));
    let from_usize = options_fields(ch, &Options::from(w0));
    ch.push(json!({"ev": "optseq", "w0": alpha(w0).unwrap_or(-1), "full": cfg!(feature = "full"), "ops": ops, "res": res, "by_ref": by_ref, "from_usize": from_usize}));
}

/// Record one unfill() call as a group of step events (u.begin, u.l1 per line of loop 1, u.l1end, u.l2 per
/// non-empty line of loop 2, u.end) for validation against the step machine of spec/MC_Refill.tla.
pub fn rec_unfill_steps(ch: &mut Chunker, s: &str) {
    textwrap::verif::install();
    let r = guarded(&|| format!("unfill({:?})", s), || {
        let (t, o) = textwrap::unfill(s);
        (t, o.initial_indent.to_string(), o.subsequent_indent.to_string(), o.width, o.line_ending == LineEnding::CRLF)
    });
    let evs = textwrap::verif::take();
    let sj = ch.cps(s);
    ch.push_raw(json!({"ev": "w.begin", "kind": "unfill", "s": sj}));
    let mut in_l1 = true;
    for e in &evs {
        match e.site {
            "unfill.loop1" => ch.push_raw(json!({"ev": "u.l1", "idx": e.vals[0], "width": e.vals[1], "ii": e.vals[2], "si": e.vals[3]})),
            "unfill.options" => {
                ch.push_raw(json!({"ev": "u.l1end", "width": e.vals[0], "ii": e.vals[1], "si": e.vals[2]}));
                in_l1 = false;
            }
            "unfill.loop2" => ch.push_raw(json!({"ev": "u.l2", "idx": e.vals[0], "len": e.vals[1], "ending": e.vals[2]})),
            _ => {}
        }
    }
    let _ = in_l1;
    match r {
        Ok((t, ii, si, w, crlf)) => {
            let ev = json!({"ev": "u.end", "text": ch.cps(&t), "ii": ch.cps(&ii), "si": ch.cps(&si), "width": alpha(w).unwrap_or(-1), "crlf": crlf, "status": "ok"});
            ch.push_raw(ev);
        }
        Err(_) => ch.push_raw(json!({"ev": "u.end", "text": [], "ii": [], "si": [], "width": 0, "crlf": false, "status": "panic"})),
    }
}
