HOOK_COMMITS = ["57ac42604afe0a9cfd866181f1b826dd9676d18a", "75d54ed3b331393ef8ceec27b63bd5c3dbd0c67e", "de166f2df26be9cbffc399523420dec502a095ad", "a8c19993cac6b9f3839396d5f5bf6a5cee75f666"]
NOT_APPLICABLE = {}
_NOTE = ("Bounded: TLC explores the specification exhaustively only inside the small constants of the MC_*.cfg files; beyond them the claim rests on "
         "trace validation of recorded executions (exhaustive small alphabets + seeded structured random inputs, threshold-directed widths). Trusted: TLC, "
         "the Json/IOUtils community modules, rustc/std (its string operations are modelled in StdStr.tla and that model is re-checked against std on every "
         "run), the unicode-width / unicode-linebreak / smawk crates (oracles), the harness's recording code. Judgement is made only by TLC from spec/Props*.tla.")
_T = "TLA+ spec + TLC model checking + TLC trace validation of recorded calls of the real crate"
def _t(level, technique=_T, note=_NOTE):
    return {"level": level, "note": note, "technique": technique}
TEXTS = {
 "C01": _t("Every wrap/fill call recorded from the real crate (texts with multi-byte, zero-width, wide, control characters, well-formed and malformed ANSI "
           "sequences, LF/CRLF paragraphs; widths 0..usize::MAX; both algorithms, separators, all splitters incl. hyphen-inserting custom ones; both "
           "feature builds) is judged by TLC: an existential, backtracking cursor walk must explain each line as indent + in-order slice (+ inserted "
           "hyphen), borrowed lines must sit at their pointer offset, only spaces / line-ending characters may be skipped, and the space-at-end "
           "exception is checked against the specification's words. In addition every internal step of wrap() recorded through the verif-hooks "
           "feature is replayed through the actions of the step machine MC_Wrap (spec/TraceWrap.tla; drift only)."),
 "C02": _t("First-fit wrap/fill calls on texts with well-formed escape sequences, many paragraphs and unequal indents are judged by TLC: display "
           "width of every line (specification DW, oracle widths) <= width, or the remainder is a single unnarrowable fragment per the statement."),
 "C03": _t("wrap_optimal_fit on integer fragments (n <= 60; exhaustive tiny domain + random small/medium/large-exact; default and random penalties; 1- and "
           "2-element width lists): TLC compares the cost of the returned arrangement with the minimum (accumulator DP, and exhaustive over all 2^(n-1) "
           "arrangements for n <= 9) and with first-fit; at text level the arrangement is derived existentially from wrap's lines per paragraph. Step level: every column minimum smawk reports (optimal_fit.column hook: column, argmin, cost) and every back-tracking step is replayed "
           "through DPStep / BackStep of the machine MC_Optimal (spec/TraceOptimal.tla): the reported row must be a minimum of the specification's column."),
 "C04": _t("All public functions are driven with an adversarial alphabet, widths 0..usize::MAX, all built-in option combinations, arbitrary usize penalties, "
           "finite and non-finite f64 fragment widths under catch_unwind and a watchdog; a panic/hang/overflow error is data and TLC's verdict is on the "
           "recorded status (only wrap_columns with zero columns may fail). On the model: explicit fault states for every partial operation are "
           "unreachable (NoFault) and every step machine terminates under weak fairness (PROPERTY Terminates in the *_live.cfg configurations)."),
 "C05": _t("(i) wrap events: every paragraph whose display width plus indent fits must come back as exactly indent + paragraph without trailing spaces; "
           "(ii) the cfg(fuzzing) entry points are used to run shortcut and general path on the same line / text with widths swept across the byte length; "
           "TLC requires identical results."),
 "C06": _t("Fragment-level calls of both algorithms with arbitrary finite f64 triples; the harness logs only pointer-derived element offsets and lengths of "
           "the returned slices; TLC judges the pure partition shape. Thorough tier: Apalache checks the first-fit loop for 8 fragments with symbolic "
           "(arbitrary non-negative integer) widths and an arbitrary width per line. Step level: wrap_first_fit and wrap_optimal_fit calls are replayed hook event by hook event through MC_FirstFit / MC_Optimal "
           "(spec/TraceFirstFit.tla, spec/TraceOptimal.tla)."),
 "C07": _t("Fragment level (integers and dyadic eighths, width lists of length 0-3): TLC requires the returned arrangement to be greedy by the declarative "
           "definition and equal to the specification's first-fit; text level: per paragraph, some reading of the lines as an arrangement of the "
           "specification's fragments must be greedy for the widths of the indents actually rendered. Step-level: every first_fit.step hook event is "
           "replayed through FFStep of the machine; thorough tier: Apalache with symbolic widths."),
 "C08": _t("wrap events: every line starts with the applicable indent (incl. empty / whitespace-only paragraphs); pairs of calls whose indents differ only "
           "in characters (equal display width and emptiness) must agree on everything after the indent."),
 "C09": _t("Composite events record wrap(a), wrap(b), wrap(a2), wrap(a+nl+b), wrap(a2+nl+b), fill and the CRLF twins; TLC re-checks the argument relation and "
           "judges prefix, independence, equality with wrap(b) for empty indents, line count, fill = join, LF->CRLF equivariance."),
 "C10": _t("All 1,112,064 scalars (thorough; BMP + astral sample in quick) and strings over a mixed alphabet incl. malformed sequences are run through the real "
           "display_width in both feature builds; TLC judges per-scalar width vs the oracle table / cut-off rule, <= UTF-8 length, the declarative "
           "strip-and-sum definition on well-formed strings, additivity and insertion invariance."),
 "C11": _t("find_words of both separators is recorded with pointer-derived offsets on exhaustive small alphabets and random lines with ANSI sequences in every "
           "position; TLC judges losslessness, shape, cached widths and the exact boundary sets (ASCII rule; UAX#14 opportunities from the oracle, "
           "filtered and mapped as the statement says, none inside a sequence). Step level: every character step of the ASCII separator and every kept "
           "opportunity / idx_map hit of the Unicode separator is replayed through AsciiStep / UaxStep of the machine MC_Words (spec/TraceWords.tla)."),
 "C12": _t("split_points / split_words / break_apart / break_words recorded with offsets on exhaustive small alphabets and random words; TLC judges every "
           "clause (lossless, split points, penalty rule, non-empty, bounded, maximal, escape-safe, cached widths, pass-through). Step level: every piece of "
           "split_words and every visible-character step of break_apart is replayed through SplitStep / SplitEnd / BreakStep of the machine MC_Break, the "
           "characters of escape sequences as silent machine steps (spec/TraceBreak.tla)."),
 "C13": _t("Plain texts are coloured by the harness (SGR / OSC-8 before, inside, after words); TLC re-checks strip(coloured) = plain and the attachment "
           "precondition itself, then requires stripped lines of the coloured wrap to equal the plain wrap and every sequence to survive whole."),
 "C14": _t("fill applied to its own output on exhaustive small texts and random texts; the side conditions of the statement (no forced break, no overflow) are "
           "evaluated by TLC from the specification's words and the first result."),
 "C15": _t("fill -> unfill round trips over a word vocabulary, all widths, indent pairs from the prefix alphabet, both algorithms, LF/CRLF, with/without "
           "trailing ending (precondition re-checked by TLC); unfill on arbitrary strings for the structural half; every iteration of unfill's two "
           "loops (two independently written line iterators, #466) is replayed through Loop1 / Loop2 of the step machine MC_Refill (spec/TraceRefill.tla)."),
 "C16": _t("refill(fill(t,o1),o2) vs fill(t,o2 with o1's indents) for all pairs of widths / endings / algorithms; precondition (>= 2 lines, breaks at spaces) "
           "re-checked by TLC."),
 "C17": _t("fill_inplace on exhaustive small texts and random multi-paragraph texts at all widths; TLC judges same length, only space->newline changes and "
           "equality of the trimmed lines with wrap under the documented options. Step level: every fill_inplace.index hook event (paragraph offset, line offset) is replayed through LineStep of the machine "
           "MC_Inplace, ParaStart / Patch as silent steps (spec/TraceInplace.tla)."),
 "C18": _t("dedent on exhaustive small texts over {a, space, tab, LF, CR} and random margin texts; TLC compares with the declarative longest-common-margin "
           "definition and judges idempotence and dedent(indent(s,p)) = dedent(s) where the statement claims them. Step level: every iteration of dedent's narrowing loop and of indent's line loop is replayed through Narrow / IndentStep of the machine "
           "MC_Indent (spec/TraceIndent.tla)."),
 "C19": _t("indent on exhaustive small texts and random texts with many prefixes; TLC compares with the declarative per-line definition. Step level: "
           "every iteration of indent's split_terminator loop (index, byte length of the result so far) is replayed through IndentStep of MC_Indent (spec/TraceIndent.tla)."),
 "C20": _t("wrap_columns plus the reference wrap call at the specification's column width; TLC judges the row structure (gaps, column-major cells, padding), "
           "equal row widths when nothing protrudes, and that only zero columns may fail. Step level: the layout event and every cell event (row, column, byte length of the row so far) are replayed through Begin / "
           "CellStep / Finish of the machine MC_Columns (spec/TraceColumns.tla)."),
}
