HOOK_COMMITS = []
NOT_APPLICABLE = {}
_NOTE = ("Bounded: TLC explores the specification exhaustively only inside the small constants of the MC_*.cfg files; beyond them the claim rests on "
         "trace validation of recorded executions (sampled, seeded). Trusted: TLC, the Json/IOUtils community modules, rustc/std, the unicode-width / "
         "unicode-linebreak / smawk crates (oracles), the harness's recording code.")
TEXTS = {
 "C10": {"level": "TLC checks the escape-scanner specification against the declarative strip-and-sum definition on all short strings; all 1,112,064 scalars "
                  "(thorough; BMP + sample in quick) and generated strings are executed on the real display_width in both feature builds and every result is "
                  "judged by TLC against spec/Props.tla.",
         "note": _NOTE, "technique": "TLA+ spec + TLC model checking + trace validation of real display_width calls (both feature sets)"},
 "C11": {"level": "find_words of both separators is recorded (word/whitespace offsets by pointer arithmetic, cached widths) on exhaustive small alphabets and "
                  "random lines with ANSI sequences in every position; TLC judges losslessness, shape and the exact boundary sets (ASCII rule; UAX#14 "
                  "opportunities from the oracle, filtered and mapped as the statement says).",
         "note": _NOTE, "technique": "TLA+ spec + TLC model checking + trace validation of real find_words calls"},
 "C12": {"level": "split_points / split_words / break_apart / break_words are recorded with offsets on exhaustive small alphabets and random words; TLC judges "
                  "every clause of the statement (lossless, split points, penalty rule, bounded, maximal, escape-safe, cached widths, pass-through).",
         "note": _NOTE, "technique": "TLA+ spec + TLC model checking + trace validation of real split/break calls"},
}
