"""Per-property configuration of bin/check: feature builds, bounded model-checking runs (quick / thorough
configuration files under spec/), replay caps."""

PINNED = []   # named deviations describing the tree as pinned (empty once the fix: commits are in)
BOTH = ["full", "nodef"]

def mc(module, quick, thorough, **kw):
    d = {"module": module, "cfg_quick": quick, "cfg_thorough": thorough}
    d.update(kw)
    return d

WRAP = [mc("MC_Wrap", "MC_Wrap.cfg", "MC_Wrap_t.cfg", timeout_thorough=3000, heap="12g"),
        mc("MC_Wrap", "MC_Wrap_u.cfg", "MC_Wrap_ut.cfg", timeout_thorough=3000, heap="12g"),
        mc("MC_Wrap", "MC_Wrap_c.cfg", "MC_Wrap_c.cfg")]      # CRLF line ending with lone CR / LF in the text
ANSI = mc("MC_Ansi", "MC_Ansi.cfg", "MC_Ansi_t.cfg")
WORDS = mc("MC_Words", "MC_Words.cfg", "MC_Words_t.cfg")
BREAK = mc("MC_Break", "MC_Break.cfg", "MC_Break_t.cfg")
FF = mc("MC_FirstFit", "MC_FirstFit.cfg", "MC_FirstFit_t.cfg")
OPT = [mc("MC_Optimal", "MC_Optimal.cfg", "MC_Optimal_t.cfg", timeout_thorough=3000, heap="12g"), mc("MC_Optimal", "MC_Optimal_p.cfg", "MC_Optimal_p.cfg")]
REL = mc("MC_Rel", "MC_Rel.cfg", "MC_Rel_t.cfg")
INDENT = mc("MC_Indent", "MC_Indent.cfg", "MC_Indent_t.cfg")
REFILL = mc("MC_Refill", "MC_Refill.cfg", "MC_Refill_t.cfg")
COLUMNS = mc("MC_Columns", "MC_Columns.cfg", "MC_Columns_t.cfg")
INPLACE = mc("MC_Inplace", "MC_Inplace.cfg", "MC_Inplace_t.cfg")

# termination of every step machine under weak fairness (PROPERTY Terminates); the quick tier runs the cheap ones
LIVE_QUICK = [mc(m, m + "_live.cfg", m + "_live.cfg") for m in ["MC_Refill", "MC_Inplace", "MC_Columns", "MC_FirstFit", "MC_Ansi", "MC_Indent"]]
LIVE_THOROUGH = [mc(m, None, m + "_live.cfg") for m in ["MC_Wrap", "MC_Break", "MC_Words", "MC_Optimal"]]

PROPS = {
    "C01": {"builds": BOTH, "mc": WRAP},
    "C02": {"builds": BOTH, "mc": WRAP + [ANSI]},
    "C03": {"builds": ["full"], "mc": OPT + [WRAP[0]]},
    "C04": {"builds": BOTH, "mc": [WRAP[0], REFILL, INPLACE, COLUMNS, mc("MC_Break", None, "MC_Break_t.cfg")] + LIVE_QUICK + LIVE_THOROUGH,
            "replay_cap_quick": 4000},
    "C05": {"builds": BOTH, "mc": [WRAP[0], WRAP[2], REL]},
    "C06": {"builds": BOTH, "mc": [FF, OPT[0]]},
    "C07": {"builds": BOTH, "mc": [FF, WRAP[0]]},
    "C08": {"builds": BOTH, "mc": WRAP + [REL]},
    "C09": {"builds": BOTH, "mc": [REL]},
    "C10": {"builds": BOTH, "mc": [ANSI]},
    "C11": {"builds": BOTH, "mc": [WORDS]},
    "C12": {"builds": BOTH, "mc": [BREAK]},
    "C13": {"builds": BOTH, "mc": [REL]},
    "C14": {"builds": BOTH, "mc": [REL]},
    "C15": {"builds": BOTH, "mc": [REFILL, REL]},
    "C16": {"builds": BOTH, "mc": [REL]},
    "C17": {"builds": BOTH, "mc": [INPLACE]},
    "C18": {"builds": ["full"], "mc": [INDENT]},
    "C19": {"builds": ["full"], "mc": [INDENT]},
    "C20": {"builds": BOTH, "mc": [COLUMNS]},
}
_KINDS = {"C05": ["wrap", "c05"], "C09": ["c09"], "C13": ["c13"], "C14": ["c14"], "C15": ["c15", "unfill"], "C16": ["c16"], "C08": ["wrap"],
          "C18": ["dedent", "c18"], "C19": ["indent"], "C06": ["frag"], "C07": ["frag", "wrap"], "C03": ["frag", "wrap"]}
for _k, _v in _KINDS.items():
    PROPS[_k]["replay_kinds"] = _v
# step-level validation against the step machines through the hooks ("quick": every run, "thorough": thorough tier only):
# wrap() / MC_Wrap (STEPS), unfill() / MC_Refill (USTEPS), dedent() + indent() / MC_Indent (DSTEPS), fill_inplace() / MC_Inplace (ISTEPS),
# wrap_columns() / MC_Columns (CSTEPS), wrap_first_fit() / MC_FirstFit (FFSTEPS), wrap_optimal_fit() / MC_Optimal (OSTEPS),
# find_words() / MC_Words (WSTEPS), split_words() + break_apart() / MC_Break (BSTEPS)
_STEPGENS = {
    "C01": [("STEPS", "quick")], "C07": [("STEPS", "quick"), ("FFSTEPS", "quick")],
    "C02": [("STEPS", "thorough")], "C03": [("OSTEPS", "quick"), ("STEPS", "thorough")], "C05": [("STEPS", "thorough")], "C08": [("STEPS", "thorough")],
    "C09": [("STEPS", "thorough")], "C06": [("FFSTEPS", "quick"), ("OSTEPS", "quick")], "C15": [("USTEPS", "quick")],
    "C11": [("WSTEPS", "quick")], "C12": [("BSTEPS", "quick")], "C13": [("BSTEPS", "thorough"), ("WSTEPS", "thorough")],
    "C17": [("ISTEPS", "quick")], "C18": [("DSTEPS", "quick")], "C19": [("DSTEPS", "quick")], "C20": [("CSTEPS", "quick")],
}
for _k, _v in _STEPGENS.items():
    PROPS[_k]["stepgens"] = [{"gen": g, "tier": t} for g, t in _v]
_FFSYM = {"module": "FirstFitSym.tla", "inv": "Inv", "length": 9, "tiers": ["thorough"],
          "what": "wrap_first_fit with 8 fragments whose widths, whitespace widths, penalty widths and the width of every line are arbitrary "
                  "non-negative integers (symbolic): partition shape and the greedy rule hold for all of them"}
PROPS["C06"]["apalache"] = [_FFSYM]
PROPS["C07"]["apalache"] = [_FFSYM]
for _p in PROPS.values():
    _p.setdefault("dev", PINNED)
    _p.setdefault("mc", [])
    _p.setdefault("replay_cap_quick", 12000)
    _p.setdefault("replay_cap_thorough", 60000)
