"""Per-property configuration of bin/check."""

PINNED = []   # named deviations describing the tree as pinned (empty once the fix: commits are in)

BOTH = ["full", "nodef"]
PROPS = {
    "C01": {"builds": BOTH}, "C02": {"builds": BOTH}, "C03": {"builds": ["full"]}, "C04": {"builds": BOTH},
    "C05": {"builds": BOTH}, "C06": {"builds": BOTH}, "C07": {"builds": BOTH}, "C08": {"builds": BOTH},
    "C09": {"builds": BOTH}, "C10": {"builds": BOTH}, "C11": {"builds": BOTH}, "C12": {"builds": BOTH},
    "C13": {"builds": BOTH}, "C14": {"builds": BOTH}, "C15": {"builds": BOTH}, "C16": {"builds": BOTH},
    "C17": {"builds": BOTH}, "C18": {"builds": ["full"]}, "C19": {"builds": ["full"]}, "C20": {"builds": BOTH},
}
for _p in PROPS.values():
    _p.setdefault("dev", PINNED)
    _p.setdefault("mc", [])
