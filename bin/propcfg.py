"""Per-property configuration of bin/check."""

PINNED = []   # named deviations describing the tree as pinned (empty once the fix: commits are in)

PROPS = {
    "C10": {"builds": ["full", "nodef"], "mc": []},
    "C11": {"builds": ["full", "nodef"], "mc": []},
    "C12": {"builds": ["full", "nodef"], "mc": []},
    "C01": {"builds": ["full", "nodef"], "mc": []},
    "C02": {"builds": ["full", "nodef"], "mc": []},
    "C07": {"builds": ["full", "nodef"], "mc": []},
    "C08": {"builds": ["full", "nodef"], "mc": []},
}
for _p in PROPS.values():
    _p.setdefault("dev", PINNED)
