SPECIFICATION Spec
CONSTANTS
  W <- MCW
  IsAlnum <- MCAlnum
  IsWs <- MCWs
  Dev = {}
  Sel = {"C12"}
  Alphabet = {97, 49, 45, 20320, 769, 27, 91, 109, 32}
  MaxLen = 4
  Limits = {0, 1, 2, 3}
  Splitters = {"none", "hyphen", "every2", "half"}
INVARIANTS BreakInv SplitInv SplitRefines PropBreak PropSplit Emit
CHECK_DEADLOCK FALSE
