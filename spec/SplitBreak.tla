----------------------------- MODULE SplitBreak ------------------------------
(***************************************************************************)
(* Word splitting (word_splitters.rs:131-206) and forced breaking          *)
(* (core.rs:286-325 break_apart, 354-367 break_words).                     *)
(*                                                                         *)
(* A split point of a word is the start position of the next piece, a      *)
(* position strictly inside the word text: a < q < e.  (Rust: byte index   *)
(* idx with 0 < idx < word.len(); the piece before it is word[prev..idx].) *)
(***************************************************************************)
EXTENDS Words

\* WordSplitter::HyphenSplitter::split_points: directly after each '-' that has an alphanumeric
\* character on both sides
HyphenPts(s, wd) == {q + 1 : q \in {x \in (wd.a + 1)..(wd.e - 2) : s[x] = HY /\ IsAlnum(s[x - 1]) /\ IsAlnum(s[x + 1])}}

\* the custom splitters of the harness (user code as far as the crate is concerned):
\*  every<k>: a split point after every `k`-th character of the word, but never directly after a space (Unicode-separator
\*            words may contain spaces) and never *inside* an escape sequence (directly before its ESC is allowed);
\*  half:     the documentation's example `|w| vec![w.len() / 2]`, in characters: for a one-character word this is
\*            the split point 0 (an empty first piece), which the documented range 0..word.len() allows; the documented
\*            closure also returns 0 for the *empty* word (the leading spaces of a paragraph), and so does the harness
OutsideSeq(s, wd, q) == Pre(SubSeq(s, wd.a, wd.e - 1))[q - wd.a + 1] = "T"
EveryPts(s, wd, k) == {q \in (wd.a + 1)..(wd.e - 1) : (q - wd.a) % k = 0 /\ s[q - 1] # SP /\ OutsideSeq(s, wd, q)}
HalfPts(s, wd) == LET n == wd.e - wd.a q == wd.a + (n \div 2)
                  IN IF OutsideSeq(s, wd, q) /\ (q = wd.a \/ s[q - 1] # SP) THEN {q} ELSE {}    \* also for the empty word: {wd.a}

\* splitter: "none" | "hyphen" | "every2" | "every3" | "half"
SplitPts(s, wd, splitter) ==
  CASE splitter = "hyphen" -> HyphenPts(s, wd)
    [] splitter = "every2" -> EveryPts(s, wd, 2)
    [] splitter = "every3" -> EveryPts(s, wd, 3)
    [] splitter = "half" -> HalfPts(s, wd)
    [] OTHER -> {}

\* split_words for one word and a given set of split points (word_splitters.rs:176-205)
SplitWordAt(s, wd, ptset) ==
  LET pts == SetToSortSeq(ptset, <)
      n == Len(pts)
      piece(k) == LET a == IF k = 1 THEN wd.a ELSE pts[k - 1]
                      e == IF k <= n THEN pts[k] ELSE wd.e
                  IN [a |-> a, e |-> e,
                      b |-> IF k <= n THEN e ELSE wd.b,
                      pen |-> IF k <= n THEN (IF HasDev("split_penalty_always") THEN 1
                                              ELSE IF e > wd.a /\ s[e - 1] = HY THEN 0 ELSE 1)    \* !word[..idx].ends_with('-')
                              ELSE (IF HasDev("split_drops_input_penalty") THEN 0 ELSE wd.pen),
                      w |-> DW(SubSeq(s, a, e - 1))]
  IN [k \in 1..(n + 1) |-> piece(k)]

RECURSIVE SplitAll(_, _, _, _, _)
SplitAll(s, ws, splitter, k, acc) ==
  IF k > Len(ws) THEN acc ELSE SplitAll(s, ws, splitter, k + 1, acc \o SplitWordAt(s, ws[k], SplitPts(s, ws[k], splitter)))
SplitWords(s, ws, splitter) == SplitAll(s, ws, splitter, 1, <<>>)

(* ---------- break_apart: loop state (offset, width) + escape scanner over the word text ---------- *)
RECURSIVE BA(_, _, _, _, _, _, _, _)
BA(s, wd, p, i, off, width, lim, acc) ==     \* p = Pre(word text); i absolute position
  IF i >= wd.e THEN
     (IF off < wd.e THEN Append(acc, [a |-> off, e |-> wd.e, b |-> wd.b, pen |-> wd.pen, w |-> width]) ELSE acc)
  ELSE LET rel == i - wd.a + 1 IN
       IF ~(p[rel] = "T" /\ s[i] # ESC) THEN BA(s, wd, p, i + 1, off, width, lim, acc)
       ELSE IF (HasDev("break_no_width_guard") \/ width > 0) /\ width + W(s[i]) > lim
            THEN BA(s, wd, p, i + 1, i, W(s[i]), lim, Append(acc, [a |-> off, e |-> i, b |-> i, pen |-> 0, w |-> width]))
            ELSE BA(s, wd, p, i + 1, off, width + W(s[i]), lim, acc)
BreakApart(s, wd, lim) == BA(s, wd, Pre(SubSeq(s, wd.a, wd.e - 1)), wd.a, wd.a, 0, lim, <<>>)

RECURSIVE BreakAll(_, _, _, _, _)
BreakAll(s, ws, lim, k, acc) ==
  IF k > Len(ws) THEN acc
  ELSE BreakAll(s, ws, lim, k + 1, acc \o (IF ws[k].w > lim THEN BreakApart(s, ws[k], lim) ELSE <<ws[k]>>))
BreakWords(s, ws, lim) == BreakAll(s, ws, lim, 1, <<>>)

RECURSIVE BreakApartAllAcc(_, _, _, _, _)
BreakApartAllAcc(s, ws, lim, k, acc) ==
  IF k > Len(ws) THEN acc ELSE BreakApartAllAcc(s, ws, lim, k + 1, acc \o BreakApart(s, ws[k], lim))
BreakApartAll(s, ws, lim) == BreakApartAllAcc(s, ws, lim, 1, <<>>)

(* ---------- declarative clauses of C12 ---------- *)
\* pieces ps are a lossless cover of the word wd
PiecesCover(wd, ps) ==
  /\ Len(ps) >= 1
  /\ ps[1].a = wd.a /\ ps[Len(ps)].e = wd.e /\ ps[Len(ps)].b = wd.b /\ ps[Len(ps)].pen = wd.pen
  /\ \A k \in 1..(Len(ps) - 1) : ps[k].e = ps[k + 1].a /\ ps[k].b = ps[k].e
  /\ \A k \in 1..Len(ps) : ps[k].a <= ps[k].e

\* split_words: cut exactly at the split points; penalty rule
SplitOk(s, wd, ptset, ps) ==
  /\ PiecesCover(wd, ps)
  /\ {ps[k].a : k \in 2..Len(ps)} = ptset /\ Len(ps) = Cardinality(ptset) + 1
  /\ \A k \in 1..(Len(ps) - 1) : ps[k].pen = (IF ps[k].e > wd.a /\ s[ps[k].e - 1] = HY THEN 0 ELSE 1)
  /\ \A k \in 1..Len(ps) : ps[k].w = DW(SubSeq(s, ps[k].a, ps[k].e - 1))

\* number of visible non-zero-width characters of s[a..e) (scanner started at the word start)
NonZeroVisible(s, wd, a, e) ==
  LET p == Pre(SubSeq(s, wd.a, wd.e - 1))
  IN Cardinality({i \in a..(e - 1) : p[i - wd.a + 1] = "T" /\ s[i] # ESC /\ W(s[i]) > 0})
FirstVisibleW(s, wd, a) ==   \* width of the first visible character at or after a in the word (0 if none)
  LET p == Pre(SubSeq(s, wd.a, wd.e - 1))
      c == {i \in a..(wd.e - 1) : p[i - wd.a + 1] = "T" /\ s[i] # ESC}
  IN IF c = {} THEN 0 ELSE W(s[Min(c)])

\* break_apart with limit lim (C12): lossless, non-empty, bounded, maximal, escape-safe, cached widths
BreakOk(s, wd, lim, ps) ==
  LET p == Pre(SubSeq(s, wd.a, wd.e - 1)) IN
  /\ PiecesCover(wd, ps)
  /\ \A k \in 1..Len(ps) : ps[k].e > ps[k].a                                              \* non-empty
  /\ \A k \in 1..(Len(ps) - 1) : ps[k].pen = 0
  /\ \A k \in 1..Len(ps) : ps[k].w = DW(SubSeq(s, ps[k].a, ps[k].e - 1))                  \* cached width
  /\ \A k \in 1..Len(ps) : ps[k].w <= lim \/ NonZeroVisible(s, wd, ps[k].a, ps[k].e) <= 1 \* bounded
  /\ \A k \in 1..(Len(ps) - 1) : ps[k].w + FirstVisibleW(s, wd, ps[k + 1].a) > lim        \* maximal
  /\ \A k \in 2..Len(ps) : p[ps[k].a - wd.a + 1] = "T"                                    \* never inside a sequence
=============================================================================
