------------------------------ MODULE TraceBreak ------------------------------
(***************************************************************************)
(* Step-level trace validation of split_words and Word::break_apart: the   *)
(* events recorded through the crate's `verif-hooks` feature are replayed  *)
(* through the actions of the step machine MC_Break.                       *)
(*  - split_words: one `split_words.piece` event per split point (byte     *)
(*    offsets prev and idx, need_hyphen) -> SplitStep; `split_words.last`  *)
(*    -> SplitEnd when the last piece exists (SplitEnd is silent when it   *)
(*    does not);                                                           *)
(*  - break_apart: one `break_apart.char` event per *visible* character    *)
(*    (byte index, offset and width before the step) -> BreakStep; the     *)
(*    machine's steps over the characters of an escape sequence are silent *)
(*    (the code skips a whole sequence in one go: grain-of-atomicity       *)
(*    mismatch resolved by silent steps); BreakEnd is silent.              *)
(***************************************************************************)
EXTENDS MC_Break, IOUtils

Rec == ndJsonDeserialize(IOEnv.TRACE)
Tab == Rec[1]
TabN == Len(Tab.cp)
RECURSIVE TabFind(_, _, _)
TabFind(c_, lo, hi) == IF lo >= hi THEN lo
                       ELSE LET mid == (lo + hi) \div 2 IN IF Tab.cp[mid] < c_ THEN TabFind(c_, mid + 1, hi) ELSE TabFind(c_, lo, mid)
TabPos(c_) == TabFind(c_, 1, TabN)
UW == Tab.wmode = "uw"
TraceW(c_) == IF UW THEN Tab.w[TabPos(c_)] ELSE CutoffW(c_)
TraceIsAlnum(c_) == Tab.an[TabPos(c_)] = 1
TraceIsWs(c_) == Tab.ws[TabPos(c_)] = 1

VARIABLE l
tvars == <<vars, l>>
e == Rec[l]
IsEv(evk) == l <= Len(Rec) /\ Rec[l].ev = evk
Bump == TLCSet(5, l + 1)
Reject(why) ==
  /\ PrintT(<<"STEP", l, Rec[l].ev, why>>) /\ TLCSet(2, TLCGet(2) + 1)
  /\ pc' = "rejected" /\ UNCHANGED <<s, lim, splitter, inpen, i, off, width, st, out, pieces, pts, sk, prev>>
Count == TLCSet(1, TLCGet(1) + 1)
Mismatch(why) == PrintT(<<"STEP", l, Rec[l].ev, why>>) /\ TLCSet(2, TLCGet(2) + 1)

HasLast == prev < Wd.e \/ prev = Wd.a
Visible == i <= Len(s) /\ st = "T" /\ s[i] # ESC
SilentEnabled == \/ pc = "split" /\ sk > Len(pts) /\ ~HasLast
                 \/ pc = "break" /\ ~IsEv("p.end") /\ (i >= Wd.e \/ ~Visible)     \* the split result is compared before the break loop runs
Silent == SilentEnabled /\ (SplitEnd \/ BreakStep \/ BreakEnd) /\ Count /\ UNCHANGED l

T_Begin ==
  /\ IsEv("w.begin") /\ Bump
  /\ s' = e.s /\ lim' = e.lim /\ splitter' = e.splitter /\ inpen' = 0
  /\ pts' = SetToSortSeq(SplitPts(e.s, MkWord(e.s, 1, Len(e.s) + 1), e.splitter), <)
  /\ pieces' = <<>> /\ sk' = 1 /\ prev' = 1 /\ i' = 1 /\ off' = 1 /\ width' = 0 /\ st' = "T" /\ out' = <<>>
  /\ pc' = "split" /\ TLCSet(3, TLCGet(3) + 1)
Skip == pc = "rejected" /\ l <= Len(Rec) /\ Rec[l].ev # "w.begin" /\ Bump /\ UNCHANGED vars

T_Piece ==
  /\ IsEv("p.piece") /\ pc # "rejected" /\ ~SilentEnabled /\ Bump
  /\ IF ~(pc = "split" /\ sk <= Len(pts)) THEN Reject("no split point left: the code splits where the specification does not")
     ELSE LET bo == BOff(s) idx == pts[sk] IN
          /\ SplitStep
          /\ IF e.prev = bo[prev] /\ e.idx = bo[idx] /\ (e.nh = 1) = (idx = 1 \/ s[idx - 1] # HY) THEN Count ELSE Mismatch("piece boundaries / need_hyphen differ")
T_Last ==
  /\ IsEv("p.last") /\ pc # "rejected" /\ ~SilentEnabled /\ Bump
  /\ IF ~(pc = "split" /\ sk > Len(pts) /\ HasLast) THEN Reject("last piece where the specification has none (or split points left)")
     ELSE /\ SplitEnd
          /\ IF e.prev = BOff(s)[prev] THEN Count ELSE Mismatch("start of the last piece differs")
PiecesMatch(res, ps) == Len(res) = Len(ps) /\ \A j \in 1..Len(ps) : res[j].a = ps[j].a /\ res[j].n = ps[j].e - ps[j].a /\ res[j].wn = ps[j].b - ps[j].e
                                                                      /\ res[j].w = ps[j].w /\ Len(res[j].pen) = ps[j].pen
T_PEnd ==
  /\ IsEv("p.end") /\ pc # "rejected" /\ ~SilentEnabled /\ Bump
  /\ IF e.status # "ok" THEN Reject("split_words panicked")
     ELSE IF pc # "break" THEN Reject("split_words returned before the machine was done")
     ELSE /\ UNCHANGED vars
          /\ IF PiecesMatch(e.res, pieces) THEN Count ELSE Mismatch("pieces differ from the machine's")
\* one iteration of `while let Some((idx, ch)) = char_indices.next()` that is not skipped as part of an escape sequence
T_BChar ==
  /\ IsEv("b.char") /\ pc # "rejected" /\ ~SilentEnabled /\ Bump
  /\ IF ~(pc = "break" /\ i < Wd.e /\ Visible) THEN Reject("no visible character left")
     ELSE LET bo == BOff(s) IN
          /\ BreakStep
          /\ IF e.idx = bo[i] /\ e.off = bo[off] /\ e.width = width THEN Count ELSE Mismatch("byte index / offset / width differ")
T_End ==
  /\ IsEv("b.end") /\ pc # "rejected" /\ ~SilentEnabled /\ Bump
  /\ IF e.status # "ok" THEN Reject("break_apart panicked")
     ELSE IF pc # "done" THEN Reject("break_apart returned before the machine was done")
     ELSE /\ pc' = "idle" /\ UNCHANGED <<s, lim, splitter, inpen, i, off, width, st, out, pieces, pts, sk, prev>>
          /\ IF PiecesMatch(e.res, out) THEN Count /\ TLCSet(4, TLCGet(4) + 1) ELSE Mismatch("pieces differ from the machine's")

TraceInit == Init /\ l = 2 /\ TLCSet(1, 0) /\ TLCSet(2, 0) /\ TLCSet(3, 0) /\ TLCSet(4, 0) /\ TLCSet(5, 2)
TraceNext == ((T_Begin \/ Skip \/ T_Piece \/ T_Last \/ T_PEnd \/ T_BChar \/ T_End) /\ l' = l + 1) \/ Silent
TraceSpec == TraceInit /\ [][TraceNext]_tvars
Accepted ==
  /\ PrintT(<<"STEPSTATS", TLCGet(1), TLCGet(2), TLCGet(3), TLCGet(4), Len(Rec) - 1>>)
  /\ TLCGet(5) = Len(Rec) + 1
=============================================================================
