SPECIFICATION TraceSpec
CONSTANTS
  W <- TraceW
  IsAlnum <- TraceIsAlnum
  IsWs <- TraceIsWs
  Dev = {}
  Sel = {}
  Alphabet = {}
  MaxLen = 0
POSTCONDITION Accepted
CHECK_DEADLOCK FALSE
