------------------------------ MODULE TraceInplace ----------------------------
(***************************************************************************)
(* Step-level trace validation of fill_inplace(): the `fill_inplace.index` *)
(* events recorded through the crate's `verif-hooks` feature (one per line *)
(* break that the function is about to record: byte offset of the current  *)
(* paragraph and running line offset) are replayed through the actions of  *)
(* the step machine MC_Inplace.  ParaStart, the paragraph-closing LineStep *)
(* and Patch have no hook: they are silent machine steps, taken without    *)
(* consuming an event (the machine is deterministic).  Every event must    *)
(* find the machine inside a paragraph with a non-final line left, and the *)
(* logged offsets must be the machine's; the function must return (or      *)
(* panic) exactly when the machine is done (or faults), with the machine's *)
(* string.                                                                 *)
(***************************************************************************)
EXTENDS MC_Inplace, IOUtils

Rec == ndJsonDeserialize(IOEnv.TRACE)
Tab == Rec[1]
TabN == Len(Tab.cp)
RECURSIVE TabFind(_, _, _)
TabFind(c, lo, hi) == IF lo >= hi THEN lo
                      ELSE LET mid == (lo + hi) \div 2 IN IF Tab.cp[mid] < c THEN TabFind(c, mid + 1, hi) ELSE TabFind(c, lo, mid)
TabPos(c) == TabFind(c, 1, TabN)
UW == Tab.wmode = "uw"
TraceW(c) == IF UW THEN Tab.w[TabPos(c)] ELSE CutoffW(c)
TraceIsAlnum(c) == Tab.an[TabPos(c)] = 1
TraceIsWs(c) == Tab.ws[TabPos(c)] = 1

VARIABLE l
tvars == <<vars, l>>
e == Rec[l]
IsEv(kind) == l <= Len(Rec) /\ Rec[l].ev = kind
Bump == TLCSet(5, l + 1)
Reject(why) ==
  /\ PrintT(<<"STEP", l, Rec[l].ev, why>>) /\ TLCSet(2, TLCGet(2) + 1)
  /\ pc' = "rejected" /\ UNCHANGED <<text, width, prs, pk, offset, lineoff, ws, arr, ak, indices, res, fault>>
Count == TLCSet(1, TLCGet(1) + 1)
Mismatch(why) == PrintT(<<"STEP", l, Rec[l].ev, why>>) /\ TLCSet(2, TLCGet(2) + 1)

\* silent machine steps (no hook): start of a paragraph, end of a paragraph, the final byte patching
SilentEnabled == pc = "para" \/ (pc = "lines" /\ ak > Len(arr) - 1)
Silent == /\ SilentEnabled /\ (ParaStart \/ LineStep \/ Patch) /\ Count /\ UNCHANGED l

T_Begin ==
  /\ IsEv("w.begin") /\ Bump
  /\ text' = e.text /\ width' = e.width /\ prs' = SplitCharRanges(e.text, LF) /\ pc' = "para" /\ pk' = 1 /\ offset' = 0 /\ lineoff' = 0
  /\ ws' = <<>> /\ arr' = <<>> /\ ak' = 1 /\ indices' = <<>> /\ res' = <<>> /\ fault' = "none" /\ TLCSet(3, TLCGet(3) + 1)
Skip == pc = "rejected" /\ l <= Len(Rec) /\ Rec[l].ev # "w.begin" /\ Bump /\ UNCHANGED vars

\* one iteration of `for words in &wrapped_words[..wrapped_words.len() - 1]`; the hook fires before `indices.push(line_offset - 1)`
T_Line ==
  /\ IsEv("i.line") /\ pc # "rejected" /\ ~SilentEnabled /\ Bump
  /\ IF pc # "lines" THEN Reject("no non-final line left in this paragraph: the code breaks a line the specification does not")
     ELSE /\ LineStep
          /\ IF e.offset = offset /\ e.lo = (IF fault' # "none" THEN 0 ELSE lineoff') THEN Count
             ELSE Mismatch("paragraph offset / line offset differ")
T_End ==
  /\ IsEv("i.end") /\ pc # "rejected" /\ ~SilentEnabled /\ Bump
  /\ IF pc # "done" THEN Reject("fill_inplace returned before the machine was done")
     ELSE /\ pc' = "idle" /\ UNCHANGED <<text, width, prs, pk, offset, lineoff, ws, arr, ak, indices, res, fault>>
          /\ IF (e.status = "panic" /\ fault # "none") \/ (e.status = "ok" /\ fault = "none" /\ res = e.res) THEN Count /\ TLCSet(4, TLCGet(4) + 1)
             ELSE Mismatch("returned string / panic differs from the machine's")

TraceInit == Init /\ l = 2 /\ TLCSet(1, 0) /\ TLCSet(2, 0) /\ TLCSet(3, 0) /\ TLCSet(4, 0) /\ TLCSet(5, 2)
TraceNext == ((T_Begin \/ Skip \/ T_Line \/ T_End) /\ l' = l + 1) \/ Silent
TraceSpec == TraceInit /\ [][TraceNext]_tvars
Accepted ==
  /\ PrintT(<<"STEPSTATS", TLCGet(1), TLCGet(2), TLCGet(3), TLCGet(4), Len(Rec) - 1>>)
  /\ TLCGet(5) = Len(Rec) + 1
=============================================================================
