------------------------------- MODULE Chars -------------------------------
(***************************************************************************)
(* Character model shared by every module of the textwrap specification.   *)
(*                                                                         *)
(* A string is a sequence of Unicode scalar values (naturals).  Positions  *)
(* are 1-based character indices; byte offsets (what the Rust code         *)
(* computes with) are derived through Utf8Len / BOff.                      *)
(*                                                                         *)
(* Per-character facts that come from Unicode tables are parameters:       *)
(*   W(c)       column width (unicode-width crate, or the cut-off rule)    *)
(*   IsAlnum(c) char::is_alphanumeric                                      *)
(*   IsWs(c)    char::is_whitespace                                        *)
(* In model-checking configurations they are defined by CASE over a small  *)
(* concrete alphabet; in trace validation they come from the character     *)
(* table the harness logs at the head of each trace file.                  *)
(***************************************************************************)
EXTENDS Naturals, Integers, Sequences, FiniteSets, SequencesExt, FiniteSetsExt, TLC

CONSTANTS W(_), IsAlnum(_), IsWs(_)

\* Named deviations (DESIGN 2.1): the empty set is the specification proper; a name switches one
\* rule to a wrong variant.  Used by the specification's own mutation test and to describe the
\* behaviour of the pinned tree where it was defective.
CONSTANT Dev
HasDev(d) == d \in Dev

ESC == 27
LBR == 91      \* '['
RBR == 93      \* ']'
BEL == 7
BSL == 92      \* '\'
SP  == 32
LF  == 10
CR  == 13
HY  == 45      \* '-'
SHY == 173     \* soft hyphen U+00AD
TAB == 9

Utf8Len(c) == IF c < 128 THEN 1 ELSE IF c < 2048 THEN 2 ELSE IF c < 65536 THEN 3 ELSE 4

\* The width rule used by textwrap when the unicode-width feature is off.
CutoffW(c) == IF c < 4352 THEN 1 ELSE 2

Max2(a, b) == IF a >= b THEN a ELSE b
Min2(a, b) == IF a <= b THEN a ELSE b
SatSub(a, b) == IF a >= b THEN a - b ELSE 0

(* ---------- byte offsets ---------- *)
RECURSIVE BOffs(_, _, _)
BOffs(s, i, acc) == IF i > Len(s) THEN acc ELSE BOffs(s, i + 1, Append(acc, acc[i] + Utf8Len(s[i])))
\* BOff(s)[i] = number of bytes before character i (i in 1..Len(s)+1)
BOff(s) == BOffs(s, 1, <<0>>)
ByteLen(s) == BOff(s)[Len(s) + 1]

\* is byte offset b (0-based) a character boundary of s ?
IsCharBoundary(s, b) == \E i \in 1..(Len(s) + 1) : BOff(s)[i] = b

\* character position (1-based) whose byte offset is b; 0 if b is not a boundary
PosOfByte(s, b) == LET bo == BOff(s) c == {i \in 1..(Len(s) + 1) : bo[i] = b} IN IF c = {} THEN 0 ELSE CHOOSE i \in c : TRUE

(* ---------- small sequence helpers (first-order, accumulator style) ---------- *)
RECURSIVE SumSeqAcc(_, _, _)
SumSeqAcc(s, i, acc) == IF i > Len(s) THEN acc ELSE SumSeqAcc(s, i + 1, acc + s[i])
SumSeq(s) == SumSeqAcc(s, 1, 0)

RECURSIVE AllIn(_, _, _, _)
AllIn(s, a, b, set) == IF a >= b THEN TRUE ELSE (s[a] \in set /\ AllIn(s, a + 1, b, set))   \* s[a..b) all in set

AllEq(s, a, b, c) == \A i \in a..(b - 1) : s[i] = c

StartsWith(s, p) == Len(p) <= Len(s) /\ SubSeq(s, 1, Len(p)) = p
EndsWith(s, p) == Len(p) <= Len(s) /\ SubSeq(s, Len(s) - Len(p) + 1, Len(s)) = p
MatchAt(t, p, r) == p >= 1 /\ p + Len(r) - 1 <= Len(t) /\ SubSeq(t, p, p + Len(r) - 1) = r

\* length of the longest common prefix of x and y (call with i = 1)
RECURSIVE LcpLen(_, _, _)
LcpLen(x, y, i) == IF i <= Len(x) /\ i <= Len(y) /\ x[i] = y[i] THEN LcpLen(x, y, i + 1) ELSE i - 1

Repeat(c, n) == [i \in 1..n |-> c]

RECURSIVE ConcatAllAcc(_, _, _)
ConcatAllAcc(ss, i, acc) == IF i > Len(ss) THEN acc ELSE ConcatAllAcc(ss, i + 1, acc \o ss[i])
ConcatAll(ss) == ConcatAllAcc(ss, 1, <<>>)

RECURSIVE JoinAcc(_, _, _, _)
JoinAcc(ss, sep, i, acc) == IF i > Len(ss) THEN acc ELSE JoinAcc(ss, sep, i + 1, (IF i = 1 THEN acc ELSE acc \o sep) \o ss[i])
Join(ss, sep) == JoinAcc(ss, sep, 1, <<>>)

=============================================================================
