SPECIFICATION Spec
CONSTANTS
  W <- MCW
  IsAlnum <- MCAlnum
  IsWs <- MCWs
  Dev = {}
  Sel = {"C04", "C17"}
  Alphabet = {97, 32, 233, 10}
  MaxLen = 5
  Widths = {0, 1, 2, 3, 4, 999999999}
INVARIANTS NoFault OffsetInv IndexInv IndicesIncrease PropInplace Emit
CHECK_DEADLOCK FALSE
