------------------------------ MODULE TraceRefill -----------------------------
(***************************************************************************)
(* Step-level trace validation of unfill(): the events recorded through    *)
(* the crate's `verif-hooks` feature, one per iteration of each of the two *)
(* loops of refill.rs, are replayed through the actions Loop1 / Loop2 of   *)
(* the step machine MC_Refill.  The two loops use two independently        *)
(* written line iterators (str::lines and NonEmptyLines); replaying them   *)
(* step by step checks that the code visits exactly the lines the machine  *)
(* visits, with the same width / indents after every line of loop 1 and    *)
(* the same line length / ending for every item of loop 2.                 *)
(***************************************************************************)
EXTENDS MC_Refill, IOUtils

Rec == ndJsonDeserialize(IOEnv.TRACE)
Tab == Rec[1]
TabN == Len(Tab.cp)
RECURSIVE TabFind(_, _, _)
TabFind(c, lo, hi) == IF lo >= hi THEN lo
                      ELSE LET mid == (lo + hi) \div 2 IN IF Tab.cp[mid] < c THEN TabFind(c, mid + 1, hi) ELSE TabFind(c, lo, mid)
TabPos(c) == TabFind(c, 1, TabN)
UW == Tab.wmode = "uw"
TraceW(c) == IF UW THEN Tab.w[TabPos(c)] ELSE CutoffW(c)
TraceIsAlnum(c) == Tab.an[TabPos(c)] = 1
TraceIsWs(c) == Tab.ws[TabPos(c)] = 1

VARIABLE l
tvars == <<vars, l>>
e == Rec[l]
IsEv(kind) == l <= Len(Rec) /\ Rec[l].ev = kind
Reject(why) ==
  /\ PrintT(<<"STEP", l, Rec[l].ev, why>>) /\ TLCSet(2, TLCGet(2) + 1)
  /\ pc' = "rejected" /\ UNCHANGED <<s, ls, k, width, ii, si, nel, text, det, fault>>
Count == TLCSet(1, TLCGet(1) + 1)

T_Begin ==
  /\ IsEv("w.begin")
  /\ s' = e.s /\ ls' = Lines(e.s) /\ nel' = NonEmptyLines(e.s) /\ pc' = "loop1" /\ k' = 1 /\ width' = 0 /\ ii' = <<>> /\ si' = <<>>
  /\ text' = <<>> /\ det' = "none" /\ fault' = "none" /\ TLCSet(3, TLCGet(3) + 1)
Skip == pc = "rejected" /\ l <= Len(Rec) /\ Rec[l].ev # "w.begin" /\ UNCHANGED vars

\* one iteration of `for (idx, line) in text.lines().enumerate()`; the hook fires at the end of the body
T_L1 ==
  /\ IsEv("u.l1") /\ pc # "rejected"
  /\ IF ~(pc = "loop1" /\ k <= Len(ls)) THEN Reject("loop 1 has no line left: the code iterates over more lines than str::lines() of the specification")
     ELSE IF e.idx # k - 1 THEN Reject("line index differs")
     ELSE /\ Loop1
          /\ IF width' = e.width /\ ByteLen(ii') = e.ii /\ ByteLen(si') = e.si THEN Count
             ELSE PrintT(<<"STEP", l, "u.l1", "width / indent lengths after this line differ">>) /\ TLCSet(2, TLCGet(2) + 1)
T_L1End ==
  /\ IsEv("u.l1end") /\ pc # "rejected"
  /\ IF pc = "loop1" /\ k > Len(ls) /\ width = e.width /\ ByteLen(ii) = e.ii /\ ByteLen(si) = e.si THEN Loop1 /\ Count
     ELSE Reject("loop 1 cannot end here / state after loop 1 differs")
\* one iteration of `for (idx, (line, ending)) in NonEmptyLines(text).enumerate()`; the hook fires at the start of the body
T_L2 ==
  /\ IsEv("u.l2") /\ pc # "rejected"
  /\ IF ~(pc = "loop2" /\ k <= Len(nel)) THEN Reject("loop 2 has no item left: NonEmptyLines of the code yields more items than the specification's")
     ELSE LET line == SubSeq(s, nel[k][1], nel[k][2])
              code == IF nel[k][3] = "none" THEN 0 ELSE IF nel[k][3] = "lf" THEN 1 ELSE 2
          IN IF e.idx # k - 1 \/ e.len # ByteLen(line) \/ e.ending # code THEN Reject("item of NonEmptyLines differs (length or ending)")
             ELSE Loop2 /\ Count
T_End ==
  /\ IsEv("u.end") /\ pc # "rejected"
  /\ IF e.status # "ok" THEN Reject("unfill panicked")
     ELSE IF ~(pc = "loop2" /\ k > Len(nel)) THEN Reject("unfill returned before loop 2 was done")
     ELSE /\ Loop2
          /\ IF text' = e.text /\ ii = e.ii /\ si = e.si /\ width = e.width /\ (det = "crlf") = e.crlf /\ fault' = "none"
             THEN Count /\ TLCSet(4, TLCGet(4) + 1)
             ELSE PrintT(<<"STEP", l, "u.end", "returned text / options differ from the machine's">>) /\ TLCSet(2, TLCGet(2) + 1)

TraceInit == Init /\ l = 2 /\ TLCSet(1, 0) /\ TLCSet(2, 0) /\ TLCSet(3, 0) /\ TLCSet(4, 0)
TraceNext == (T_Begin \/ Skip \/ T_L1 \/ T_L1End \/ T_L2 \/ T_End) /\ l' = l + 1
TraceSpec == TraceInit /\ [][TraceNext]_tvars
Accepted ==
  /\ PrintT(<<"STEPSTATS", TLCGet(1), TLCGet(2), TLCGet(3), TLCGet(4), Len(Rec) - 1>>)
  /\ TLCGet("stats").diameter = Len(Rec)
=============================================================================
