SPECIFICATION Spec
CONSTANTS
  W <- MCW
  IsAlnum <- MCAlnum
  IsWs <- MCWs
  Dev = {}
  Sel = {"C01", "C02", "C03", "C05", "C07", "C08"}
  Alphabet = {97, 32, 45, 20320, 10}
  MaxLen = 2
  Widths = {0, 1, 2, 3, 4, 999999999}
  IndentPairs <- MCIndentPairs
  BWs = {TRUE, FALSE}
  Seps = {"ascii"}
  Splitters = {"none", "hyphen"}
  Algs = {"ff", "opt"}
  Crlfs = {FALSE}
PROPERTY Terminates
CHECK_DEADLOCK FALSE
