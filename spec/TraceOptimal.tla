------------------------------ MODULE TraceOptimal ----------------------------
(***************************************************************************)
(* Step-level trace validation of wrap_optimal_fit(): the events recorded  *)
(* through the crate's `verif-hooks` feature -- one `optimal_fit.column`   *)
(* per column of the SMAWK result (column, argmin, minimum cost) and one   *)
(* `optimal_fit.back` per iteration of the back-tracking loop -- are       *)
(* replayed through DPStep / DPEnd / BackStep of the step machine          *)
(* MC_Optimal.  DPStep chooses nondeterministically among the minimal rows *)
(* of a column; the trace binds that choice to the argmin smawk reported   *)
(* (the classical "logged variables are bound, unlogged ones are chosen"   *)
(* reading): the event is explained iff the reported row is *a* minimum of *)
(* the column, computed with the path-dependent line number the machine    *)
(* derives from the back-pointers reported so far, and the reported cost   *)
(* is the machine's.  This checks, call by call, what the code relies on   *)
(* smawk for.  Outside C03's precondition (a penalty width larger than the *)
(* following fragment, or more than two line widths) the matrix need not   *)
(* be totally monotone and smawk may report a non-minimal row; the trace   *)
(* then follows the code with the machine's named deviation DPFollow and   *)
(* counts these columns (sixth number of STEPSTATS).                       *)
(***************************************************************************)
EXTENDS MC_Optimal, IOUtils

Rec == ndJsonDeserialize(IOEnv.TRACE)
Tab == Rec[1]
TabN == Len(Tab.cp)
RECURSIVE TabFind(_, _, _)
TabFind(c_, lo, hi) == IF lo >= hi THEN lo
                       ELSE LET mid == (lo + hi) \div 2 IN IF Tab.cp[mid] < c_ THEN TabFind(c_, mid + 1, hi) ELSE TabFind(c_, lo, mid)
TabPos(c_) == TabFind(c_, 1, TabN)
UW == Tab.wmode = "uw"
TraceW(c_) == IF UW THEN Tab.w[TabPos(c_)] ELSE CutoffW(c_)
TraceIsAlnum(c_) == Tab.an[TabPos(c_)] = 1
TraceIsWs(c_) == Tab.ws[TabPos(c_)] = 1

VARIABLE l
tvars == <<vars, l>>
e == Rec[l]
IsEv(evk) == l <= Len(Rec) /\ Rec[l].ev = evk
Bump == TLCSet(5, l + 1)
Reject(why) ==
  /\ PrintT(<<"STEP", l, Rec[l].ev, why>>) /\ TLCSet(2, TLCGet(2) + 1)
  /\ pc' = "rejected" /\ UNCHANGED <<fs, lws, pen, j, best, bp, ln, pos, lines>>
Count == TLCSet(1, TLCGet(1) + 1)
Mismatch(why) == PrintT(<<"STEP", l, Rec[l].ev, why>>) /\ TLCSet(2, TLCGet(2) + 1)

SilentEnabled == pc = "dp" /\ j > n
Silent == SilentEnabled /\ DPEnd /\ Count /\ UNCHANGED l

T_Begin ==
  /\ IsEv("w.begin") /\ Bump
  /\ fs' = [x \in 1..Len(e.fs) |-> [w |-> e.fs[x][1], ws |-> e.fs[x][2], pw |-> e.fs[x][3]]] /\ lws' = e.lws /\ pen' = e.pen
  /\ pc' = (IF Len(e.fs) = 0 THEN "back" ELSE "dp") /\ pos' = Len(e.fs) /\ j' = 1 /\ best' = <<0>> /\ bp' = <<0>> /\ ln' = <<0>> /\ lines' = <<>>
  /\ TLCSet(3, TLCGet(3) + 1)
Skip == pc = "rejected" /\ l <= Len(Rec) /\ Rec[l].ev # "w.begin" /\ Bump /\ UNCHANGED vars

\* column j of the matrix handed to smawk::online_column_minima
T_Col ==
  /\ IsEv("o.col") /\ pc # "rejected" /\ ~SilentEnabled /\ Bump
  /\ IF ~(pc = "dp" /\ j <= n) THEN Reject("no column left")
     ELSE IF e.j # j THEN Reject("column index differs")
     ELSE IF ~(e.arg \in 0..(j - 1)) THEN Reject("argmin out of range")
     ELSE IF ColumnCost(e.arg) = Min({ColumnCost(i) : i \in 0..(j - 1)})
     THEN /\ DPStep /\ bp'[j + 1] = e.arg
          /\ IF e.cost = best'[j + 1] THEN Count ELSE Mismatch("minimum cost of this column differs")
     ELSE IF PenaltyOk(fs) /\ Len(lws) <= 2 THEN Reject("the reported row is not a minimum of this column")
     \* outside C03's precondition the matrix need not be totally monotone: follow the code (named deviation DPFollow)
     ELSE /\ DPFollow(e.arg) /\ TLCSet(6, TLCGet(6) + 1)
          /\ IF e.cost = best'[j + 1] THEN Count ELSE Mismatch("cost of the reported row differs")
\* one iteration of the back-tracking loop
T_Back ==
  /\ IsEv("o.back") /\ pc # "rejected" /\ ~SilentEnabled /\ Bump
  /\ IF pc # "back" THEN Reject("back-tracking step where the machine is not back-tracking")
     ELSE /\ BackStep
          /\ IF e.pos = pos /\ e.prev = pos' THEN Count ELSE Mismatch("back-tracking position differs")
T_End ==
  /\ IsEv("o.end") /\ pc # "rejected" /\ ~SilentEnabled /\ Bump
  /\ IF e.status # "ok" THEN Reject("wrap_optimal_fit failed on small integral input")
     ELSE IF pc # "done" THEN Reject("wrap_optimal_fit returned before the machine was done")
     ELSE /\ pc' = "idle" /\ UNCHANGED <<fs, lws, pen, j, best, bp, ln, pos, lines>>
          /\ IF lines = e.res THEN Count /\ TLCSet(4, TLCGet(4) + 1) ELSE Mismatch("returned lines differ from the machine's")

TraceInit == Init /\ l = 2 /\ TLCSet(1, 0) /\ TLCSet(2, 0) /\ TLCSet(3, 0) /\ TLCSet(4, 0) /\ TLCSet(5, 2) /\ TLCSet(6, 0)
TraceNext == ((T_Begin \/ Skip \/ T_Col \/ T_Back \/ T_End) /\ l' = l + 1) \/ Silent
TraceSpec == TraceInit /\ [][TraceNext]_tvars
Accepted ==
  /\ PrintT(<<"STEPSTATS", TLCGet(1), TLCGet(2), TLCGet(3), TLCGet(4), Len(Rec) - 1, TLCGet(6)>>)
  /\ TLCGet(5) = Len(Rec) + 1
=============================================================================
