------------------------------- MODULE MC_Words ------------------------------
(***************************************************************************)
(* Bounded model of word finding (word_separators.rs).                     *)
(*                                                                         *)
(* A session types a line, then runs either                                *)
(*  - the ASCII separator loop (state start / in_whitespace, one           *)
(*    character per step, word_separators.rs:191-216), or                  *)
(*  - the Unicode separator (word_separators.rs:243-305) for an            *)
(*    *arbitrary* set of break opportunities of the stripped line (the     *)
(*    UAX #14 tables are an oracle; TLC explores every subset of           *)
(*    positions, always containing the mandatory break at the end): the    *)
(*    filter, the removal of the final opportunity, and the idx_map.find   *)
(*    cursor that maps stripped positions back to the original line, one   *)
(*    opportunity per step.                                                *)
(* At `done` the words are judged by the same predicates that judge        *)
(* recorded executions (Props.tla, Judge_words), which include the         *)
(* refinement check against the operators of Words.tla.                    *)
(***************************************************************************)
EXTENDS PropsAll, MCChars, Json

CONSTANTS Alphabet, MaxLen

VARIABLES s, pc, sep, opps, i, start, inws, ops, k, cur, out
vars == <<s, pc, sep, opps, i, start, inws, ops, k, cur, out>>

Init == /\ s = <<>> /\ pc = "type" /\ sep = "none" /\ opps = {} /\ i = 1 /\ start = 1 /\ inws = FALSE
        /\ ops = <<>> /\ k = 1 /\ cur = 1 /\ out = <<>>

Type(c) == pc = "type" /\ Len(s) < MaxLen /\ s' = Append(s, c) /\ UNCHANGED <<pc, sep, opps, i, start, inws, ops, k, cur, out>>

(* ---------- ASCII ---------- *)
BeginAscii == pc = "type" /\ pc' = "ascii" /\ sep' = "ascii" /\ UNCHANGED <<s, opps, i, start, inws, ops, k, cur, out>>
AsciiStep ==
  /\ pc = "ascii" /\ i <= Len(s)
  /\ IF inws /\ s[i] # SP
     THEN /\ out' = Append(out, MkWord(s, start, i)) /\ start' = i
          /\ inws' = (IF HasDev("ascii_inws_not_reset") THEN TRUE ELSE s[i] = SP)
     ELSE /\ inws' = (s[i] = SP) /\ UNCHANGED <<out, start>>
  /\ i' = i + 1 /\ UNCHANGED <<s, pc, sep, opps, ops, k, cur>>
AsciiEnd ==
  /\ pc = "ascii" /\ i > Len(s)
  /\ out' = (IF start <= Len(s) THEN Append(out, MkWord(s, start, Len(s) + 1)) ELSE out)
  /\ pc' = "done" /\ UNCHANGED <<s, sep, opps, i, start, inws, ops, k, cur>>

(* ---------- Unicode ---------- *)
BeginUax ==
  /\ pc = "type"
  /\ \E S \in FreeOppSets(s) :
       /\ opps' = S
       /\ ops' = SetToSortSeq(UaxUsedOp(s, S), <)
  /\ pc' = "uax" /\ sep' = "uax" /\ UNCHANGED <<s, i, start, inws, k, cur, out>>
\* `for (idx, _) in opportunities.by_ref() { if let Some((orig_idx, _)) = idx_map.find(..) {..} }`
UaxStep ==
  /\ pc = "uax" /\ k <= Len(ops)
  /\ LET p == Pre(s) vc == VisCounts(s, p, 1, <<0>>)
         hits == {x \in cur..Len(s) : p[x] = "T" /\ vc[x] = ops[k]}
     IN IF hits = {} THEN cur' = Len(s) + 1 /\ UNCHANGED <<out, start>>          \* iterator exhausted
        ELSE LET x == Min(hits) IN
             /\ cur' = x + 1
             /\ (IF x > start \/ HasDev("uax_allow_empty_word") THEN out' = Append(out, MkWord(s, start, x)) /\ start' = x
                 ELSE UNCHANGED <<out, start>>)
  /\ k' = k + 1 /\ UNCHANGED <<s, pc, sep, opps, i, inws, ops>>
UaxEnd ==
  /\ pc = "uax" /\ k > Len(ops)
  /\ out' = (IF start <= Len(s) THEN Append(out, MkWord(s, start, Len(s) + 1)) ELSE out)
  /\ pc' = "done" /\ UNCHANGED <<s, sep, opps, i, start, inws, ops, k, cur>>

Next == (\E c \in Alphabet : Type(c)) \/ BeginAscii \/ AsciiStep \/ AsciiEnd \/ BeginUax \/ UaxStep \/ UaxEnd
Spec == Init /\ [][Next]_vars /\ WF_vars(AsciiStep \/ AsciiEnd \/ UaxStep \/ UaxEnd)
\* once a call has begun it returns
Terminates == (pc # "type") ~> (pc = "done")

ToLogged(str, wd) ==
  [a |-> wd.a, n |-> wd.e - wd.a, wa |-> wd.e, wn |-> wd.b - wd.e, t |-> SubSeq(str, wd.a, wd.e - 1),
   wt |-> SubSeq(str, wd.e, wd.b - 1), pen |-> Repeat(HY, wd.pen), w |-> wd.w]
Ev == [ev |-> "words", sep |-> sep, s |-> s, orc |-> [opps |-> SetToSortSeq(opps, <), st |-> (IF sep = "uax" THEN StripSeq(s) ELSE <<>>)],
       res |-> [j \in 1..Len(out) |-> ToLogged(s, out[j])], status |-> "ok"]

AllOk(cs) == \A j \in 1..Len(cs) : cs[j].ok \/ (PrintT(<<"FAILED", cs[j].p, cs[j].c, cs[j].r>>) /\ FALSE)
\* loop invariant of the ASCII machine: words emitted so far cover s[1..start) and `start` is a word start
AsciiInv == pc = "ascii" => /\ (Len(out) = 0 => start = 1) /\ (Len(out) > 0 => out[Len(out)].b = start)
                            /\ inws = (i > 1 /\ s[i - 1] = SP)
UaxInv == pc = "uax" => (Len(out) > 0 => out[Len(out)].b = start) /\ start < cur + 1
PropC11 == pc = "done" => AllOk(Judge_words(Ev))
Emit == pc = "done" => PrintT(<<"REPLAY", ToJson([k |-> "words", sep |-> sep, s |-> s])>>)
=============================================================================
