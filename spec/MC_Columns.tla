------------------------------ MODULE MC_Columns -----------------------------
(***************************************************************************)
(* Bounded model of wrap_columns (columns.rs).  A session types a text and *)
(* picks column count, total width, gaps and break_words; the column width *)
(* is computed with saturating arithmetic, the text is wrapped at that     *)
(* width (operator WrapFF, itself refined by MC_Wrap), and the rows are    *)
(* built one cell per step with the padding subtraction as an explicit     *)
(* partial operation (fault on underflow in the pinned variant).           *)
(* At `done`: only zero columns may fail (C04/C20); Judge_c20.             *)
(***************************************************************************)
EXTENDS PropsAll, MCChars, Json

CONSTANTS Alphabet, MaxLen, ColCounts, Widths, Gaps, BWs

MCGaps == { << <<>>, <<>>, <<>> >>, << <<124>>, <<124>>, <<124>> >>, << <<20320>>, <<>>, <<124, 32>> >>, << <<>>, <<32, 124, 32>>, <<>> >> }

VARIABLES text, pc, cols, o, gaps, cw, inner, wl, lpc, r, c, row, rows, fault
vars == <<text, pc, cols, o, gaps, cw, inner, wl, lpc, r, c, row, rows, fault>>

Opts(w, bw) == [width |-> w, ii |-> <<>>, si |-> <<>>, bw |-> bw, sep |-> "ascii", splitter |-> "hyphen", alg |-> "ff", pen |-> DefaultPen, crlf |-> FALSE]
Init == /\ text = <<>> /\ pc = "type" /\ cols = 1 /\ o = Opts(0, TRUE) /\ gaps = << <<>>, <<>>, <<>> >> /\ cw = 1 /\ inner = 0 /\ wl = <<>>
        /\ lpc = 0 /\ r = 1 /\ c = 1 /\ row = <<>> /\ rows = <<>> /\ fault = "none"
Type(ch) == pc = "type" /\ Len(text) < MaxLen /\ text' = Append(text, ch) /\ UNCHANGED <<pc, cols, o, gaps, cw, inner, wl, lpc, r, c, row, rows, fault>>
Begin(n, w, g, bw) ==
  /\ pc = "type" /\ cols' = n /\ o' = Opts(w, bw) /\ gaps' = g
  /\ IF n = 0 THEN fault' = "assert!(columns > 0)" /\ pc' = "done" /\ UNCHANGED <<cw, inner, wl, lpc, row>>
     ELSE LET inn == InnerWidth(w, n, g[1], g[2], g[3]) width == Max2(inn \div n, 1)
              lines == LineStrings(WrapFF(text, Opts(width, bw), [j \in 1..Len(SplitCharRanges(text, LF)) |-> {}])) IN
          /\ inner' = inn /\ cw' = width /\ wl' = lines /\ lpc' = LinesPerColumn(Len(lines), n) /\ row' = g[1] /\ pc' = "cell"
          /\ UNCHANGED fault
  /\ UNCHANGED <<text, r, c, rows>>
\* for line_no in 0..lines_per_column { for column_no in 0..columns { .. } }
CellStep ==
  /\ pc = "cell" /\ r <= lpc
  /\ LET idx == r + (c - 1) * lpc
         pad == IF idx <= Len(wl) THEN cw - DW(wl[idx]) ELSE cw
     IN IF pad < 0 /\ HasDev("pinned_padding_unchecked_sub")
        THEN fault' = "columns.rs:97 subtraction" /\ pc' = "done" /\ UNCHANGED <<row, rows, r, c>>
        ELSE LET cell == (IF idx <= Len(wl) THEN wl[idx] ELSE <<>>) \o Repeat(SP, Max2(pad, 0))
                 row2 == row \o cell \o (IF c = cols THEN Repeat(SP, inner % cw) ELSE gaps[2])
             IN /\ (IF c = cols
                     THEN rows' = Append(rows, row2 \o gaps[3]) /\ row' = gaps[1] /\ c' = 1 /\ r' = r + 1
                     ELSE row' = row2 /\ c' = c + 1 /\ UNCHANGED <<rows, r>>)
                /\ UNCHANGED <<fault, pc>>
  /\ UNCHANGED <<text, cols, o, gaps, cw, inner, wl, lpc>>
Finish == pc = "cell" /\ r > lpc /\ pc' = "done" /\ UNCHANGED <<text, cols, o, gaps, cw, inner, wl, lpc, r, c, row, rows, fault>>
Next == (\E ch \in Alphabet : Type(ch)) \/ (\E n \in ColCounts, w \in Widths, g \in Gaps, bw \in BWs : Begin(n, w, g, bw)) \/ CellStep \/ Finish
Spec == Init /\ [][Next]_vars /\ WF_vars(CellStep \/ Finish)

OnlyDocumentedFault == fault # "none" => cols = 0
Ev == [ev |-> "c20", text |-> text, cols |-> cols, o |-> o, lg |-> gaps[1], mg |-> gaps[2], rg |-> gaps[3], cw |-> cw, wl |-> wl, rows |-> rows, hk |-> << <<inner, cw, Len(wl), lpc>> >>,
       status |-> (IF fault = "none" THEN "ok" ELSE "panic")]
AllOk(cs) == \A x \in 1..Len(cs) : cs[x].ok \/ (PrintT(<<"FAILED", cs[x].p, cs[x].c, cs[x].r>>) /\ FALSE)
PropColumns == pc = "done" => AllOk(Judge_c20(Ev))
\* once a call has begun it returns (checked under weak fairness of the step actions: the algorithms terminate)
Terminates == (pc # "type") ~> (pc = "done")
Emit == pc = "done" => PrintT(<<"REPLAY", ToJson([k |-> "c20", text |-> text, cols |-> cols, o |-> o, lg |-> gaps[1], mg |-> gaps[2], rg |-> gaps[3]])>>)
=============================================================================
