------------------------------ MODULE TraceColumns ----------------------------
(***************************************************************************)
(* Step-level trace validation of wrap_columns(): the events recorded      *)
(* through the crate's `verif-hooks` feature -- `wrap_columns.layout`      *)
(* (inner width, column width, number of wrapped lines, lines per column)  *)
(* and one `wrap_columns.cell` per cell (row, column, byte length of the   *)
(* row under construction) -- are replayed through Begin / CellStep /      *)
(* Finish of the step machine MC_Columns.  Begin and Finish are silent     *)
(* machine steps.  Calls are made with the options the machine models      *)
(* (ASCII separator, hyphen splitter, first-fit, no indents).              *)
(***************************************************************************)
EXTENDS MC_Columns, IOUtils

Rec == ndJsonDeserialize(IOEnv.TRACE)
Tab == Rec[1]
TabN == Len(Tab.cp)
RECURSIVE TabFind(_, _, _)
TabFind(c_, lo, hi) == IF lo >= hi THEN lo
                       ELSE LET mid == (lo + hi) \div 2 IN IF Tab.cp[mid] < c_ THEN TabFind(c_, mid + 1, hi) ELSE TabFind(c_, lo, mid)
TabPos(c_) == TabFind(c_, 1, TabN)
UW == Tab.wmode = "uw"
TraceW(c_) == IF UW THEN Tab.w[TabPos(c_)] ELSE CutoffW(c_)
TraceIsAlnum(c_) == Tab.an[TabPos(c_)] = 1
TraceIsWs(c_) == Tab.ws[TabPos(c_)] = 1

VARIABLES l, lseen
tvars == <<vars, l, lseen>>
e == Rec[l]
b == Rec[l - 1]
IsEv(evk) == l <= Len(Rec) /\ Rec[l].ev = evk
Bump == TLCSet(5, l + 1)
Reject(why) ==
  /\ PrintT(<<"STEP", l, Rec[l].ev, why>>) /\ TLCSet(2, TLCGet(2) + 1)
  /\ pc' = "rejected" /\ UNCHANGED <<text, cols, o, gaps, cw, inner, wl, lpc, r, c, row, rows, fault, lseen>>
Count == TLCSet(1, TLCGet(1) + 1)
Mismatch(why) == PrintT(<<"STEP", l, Rec[l].ev, why>>) /\ TLCSet(2, TLCGet(2) + 1)

\* silent machine steps: Begin (arguments from the call event just consumed) and Finish
SilentEnabled == (pc = "type" /\ l > 2 /\ Rec[l - 1].ev = "w.begin") \/ (pc = "cell" /\ r > lpc /\ lseen)
Silent == /\ SilentEnabled /\ Count /\ UNCHANGED <<l, lseen>>
          /\ \/ pc = "type" /\ Begin(b.cols, b.o.width, <<b.lg, b.mg, b.rg>>, b.o.bw)
             \/ Finish

T_Begin ==
  /\ IsEv("w.begin") /\ Bump
  /\ text' = e.text /\ pc' = "type" /\ cols' = 1 /\ o' = Opts(0, TRUE) /\ gaps' = << <<>>, <<>>, <<>> >> /\ cw' = 1 /\ inner' = 0 /\ wl' = <<>>
  /\ lpc' = 0 /\ r' = 1 /\ c' = 1 /\ row' = <<>> /\ rows' = <<>> /\ fault' = "none" /\ lseen' = FALSE /\ TLCSet(3, TLCGet(3) + 1)
Skip == pc = "rejected" /\ l <= Len(Rec) /\ Rec[l].ev # "w.begin" /\ Bump /\ UNCHANGED <<vars, lseen>>

T_Layout ==
  /\ IsEv("c.layout") /\ pc # "rejected" /\ ~SilentEnabled /\ Bump
  /\ IF ~(pc = "cell" /\ ~lseen) THEN Reject("layout event where the machine is not at the start of the cell loop (zero columns must panic before)")
     ELSE /\ lseen' = TRUE /\ UNCHANGED vars
          /\ IF e.inner = inner /\ e.cw = cw /\ e.nl = Len(wl) /\ e.lpc = lpc THEN Count ELSE Mismatch("inner width / column width / line counts differ")
\* one iteration of `for column_no in 0..columns`; the hook fires at the end of the body (before the right gap is pushed)
T_Cell ==
  /\ IsEv("c.cell") /\ pc # "rejected" /\ ~SilentEnabled /\ Bump /\ UNCHANGED lseen
  /\ IF ~(pc = "cell" /\ lseen /\ r <= lpc) THEN Reject("no cell left: the code builds a cell the specification does not")
     ELSE IF e.r # r - 1 \/ e.c # c - 1 THEN Reject("row / column index differs")
     ELSE /\ CellStep
          /\ LET blen == IF fault' # "none" THEN -1 ELSE IF c = cols THEN ByteLen(rows'[Len(rows')]) - ByteLen(gaps[3]) ELSE ByteLen(row')
             IN IF blen = e.len THEN Count ELSE Mismatch("byte length of the row after this cell differs")
T_End ==
  /\ IsEv("c.end") /\ pc # "rejected" /\ ~SilentEnabled /\ Bump /\ UNCHANGED lseen
  /\ IF pc # "done" THEN Reject("wrap_columns returned before the machine was done")
     ELSE /\ pc' = "idle" /\ UNCHANGED <<text, cols, o, gaps, cw, inner, wl, lpc, r, c, row, rows, fault>>
          /\ IF (e.status = "panic" /\ fault # "none") \/ (e.status = "ok" /\ fault = "none" /\ rows = e.rows) THEN Count /\ TLCSet(4, TLCGet(4) + 1)
             ELSE Mismatch("returned rows / panic differ from the machine's")

TraceInit == Init /\ l = 2 /\ lseen = FALSE /\ TLCSet(1, 0) /\ TLCSet(2, 0) /\ TLCSet(3, 0) /\ TLCSet(4, 0) /\ TLCSet(5, 2)
TraceNext == ((T_Begin \/ Skip \/ T_Layout \/ T_Cell \/ T_End) /\ l' = l + 1) \/ Silent
TraceSpec == TraceInit /\ [][TraceNext]_tvars
Accepted ==
  /\ PrintT(<<"STEPSTATS", TLCGet(1), TLCGet(2), TLCGet(3), TLCGet(4), Len(Rec) - 1>>)
  /\ TLCGet(5) = Len(Rec) + 1
=============================================================================
