-------------------------------- MODULE MC_Rel -------------------------------
(***************************************************************************)
(* Relational properties, checked on the operator layer of the             *)
(* specification (ASCII separator, first-fit: no oracle input) for every   *)
(* text TLC can type within the bound and every option record of a small   *)
(* set.  The operators are tied to the step machines by the refinement     *)
(* checks of MC_Wrap / MC_Refill / MC_Indent and to the code by trace      *)
(* validation.                                                             *)
(*   C05 (ii) shortcut unobservable   C09 paragraphs independent, CRLF     *)
(*   C13 colour codes                 C14 idempotence                      *)
(*   C15 / C16 unfill / refill round trips                                 *)
(***************************************************************************)
EXTENDS PropsAll, MCChars, Json

CONSTANTS Alphabet, MaxLen, Widths, IndentPairs, BWs, Splitters

MCIndentPairs == { << <<>>, <<>> >>, << <<62, 32>>, <<>> >>, << <<>>, <<32, 32>> >>, << <<45>>, <<62, 32>> >> }
MCSeqs == { <<27, 91, 109>>, <<27, 93, 7>> }

Opt(w, ip, bw, sp, cr) == [width |-> w, ii |-> ip[1], si |-> ip[2], bw |-> bw, sep |-> "ascii", splitter |-> sp, alg |-> "ff", pen |-> DefaultPen, crlf |-> cr]
RelOpts == {Opt(w, ip, bw, sp, FALSE) : w \in Widths, ip \in IndentPairs, bw \in BWs, sp \in Splitters}
PlainOpts == {op \in RelOpts : op.ii = <<>> /\ op.si = <<>>}
E == <<>>        \* break opportunities are not consulted by the ASCII separator

VARIABLES text, pc
vars == <<text, pc>>
Init == text = <<>> /\ pc = "type"
Type(c) == pc = "type" /\ Len(text) < MaxLen /\ text' = Append(text, c) /\ UNCHANGED pc
Done == pc = "type" /\ pc' = "done" /\ UNCHANGED text
Next == (\E c \in Alphabet : Type(c)) \/ Done
Spec == Init /\ [][Next]_vars

WrapS(t, op) == LineStrings(WrapFF(t, op, E))

C05ii == pc = "done" => \A op \in RelOpts :
            /\ WrapS(text, op) = LineStrings(WrapSlowFF(text, op, E))
            /\ FillFF(text, op, E) = FillSlowFF(text, op, E)

\* every way of reading the text as a LF b
C09 == pc = "done" => \A op \in RelOpts : \A i \in {x \in 1..Len(text) : text[x] = LF} :
          LET a == SubSeq(text, 1, i - 1) b == SubSeq(text, i + 1, Len(text))
              ra == WrapS(a, op) rb == WrapS(b, op) rab == WrapS(text, op)
              a2 == <<97, 32, 97>> ra2 == WrapS(a2, op) ra2b == WrapS(a2 \o <<LF>> \o b, op)
          IN /\ Len(rab) >= Len(ra) /\ SubSeq(rab, 1, Len(ra)) = ra
             /\ DropFirst(rab, Len(ra)) = DropFirst(ra2b, Len(ra2))
             /\ (op.ii = <<>> /\ op.si = <<>>) => DropFirst(rab, Len(ra)) = rb
             /\ Len(rab) >= Len(SplitCharRanges(text, LF))
C09crlf == (pc = "done" /\ ~Contains(text, CR)) => \A op \in RelOpts :
          LET opc == [op EXCEPT !.crlf = TRUE] t2 == LfToCrlf(text) IN
          /\ WrapS(t2, opc) = WrapS(text, op)
          /\ FillFF(t2, opc, E) = LfToCrlf(FillFF(text, op, E))

C13 == (pc = "done" /\ ~HasEsc(text)) => \A op \in RelOpts : \A k \in 0..Len(text) : \A q \in MCSeqs :
          LET col == SubSeq(text, 1, k) \o q \o SubSeq(text, k + 1, Len(text)) IN
          Attached(col, op.splitter = "hyphen") => StripAll(WrapS(col, op)) = WrapS(text, op)

\* C08, second sentence: replacing the indents by others of equal display width and emptiness changes nothing after the indent
AltIndent(ind) == CASE ind = <<62, 32>> -> <<35, 32>> [] ind = <<32, 32>> -> <<20320>> [] ind = <<45>> -> <<233>> [] OTHER -> ind
C08rel == pc = "done" => \A op \in RelOpts :
            LET op2 == [op EXCEPT !.ii = AltIndent(op.ii), !.si = AltIndent(op.si)] IN
            Remainders(WrapS(text, op), op) = Remainders(WrapS(text, op2), op2)

C14 == pc = "done" => \A op \in PlainOpts : LET f1 == FillFF(text, op, E) IN FillFF(f1, op, E) = f1

RefillOp(filled, o2) ==
  LET u == UnfillOp(filled)
      en == IF u.crlf THEN <<CR, LF>> ELSE <<LF>>
      strip == EndsWith(u.text, en)
      body == IF strip THEN SubSeq(u.text, 1, Len(u.text) - Len(en)) ELSE u.text
      r == FillFF(body, [o2 EXCEPT !.ii = u.ii, !.si = u.si], E)
  IN IF strip THEN r \o Ending(o2) ELSE r
PrefixOpts == {op \in RelOpts : OnlyPrefixChars(op.ii) /\ OnlyPrefixChars(op.si) /\ ~op.bw /\ op.splitter = "none"}
C15 == (pc = "done" /\ GoodPara(text)) => \A op \in PrefixOpts : \A trail \in BOOLEAN :
          LET filled == FillFF(text, op, E) \o (IF trail THEN <<LF>> ELSE <<>>)
              u == UnfillOp(filled)
              nl == Len(SplitChar(FillFF(text, op, E), LF))
          IN /\ ~u.fault /\ u.text = text \o (IF trail THEN <<LF>> ELSE <<>>) /\ u.ii = op.ii
             /\ (nl >= 2 => u.si = op.si) /\ u.width = WidestLine(filled) /\ ~u.crlf
C16 == (pc = "done" /\ GoodPara(text)) => \A o1 \in PrefixOpts : \A o2 \in PrefixOpts :
          LET f1 == FillFF(text, o1, E) IN
          Len(SplitChar(f1, LF)) >= 2 => RefillOp(f1, o2) = FillFF(text, [o2 EXCEPT !.ii = o1.ii, !.si = o1.si], E)

\* every typed text is also replayed into the real crate, as the composite calls the relations are about
EmitOpts == {op \in RelOpts : op.width \in {1, 3} /\ op.bw}
Emit == pc = "done" =>
  /\ \A op \in EmitOpts :
       /\ PrintT(<<"REPLAY", ToJson([k |-> "c14", text |-> text, o |-> op])>>)
       /\ PrintT(<<"REPLAY", ToJson([k |-> "c05", kind |-> "wrap", text |-> text, o |-> op, pre |-> <<>>])>>)
       /\ PrintT(<<"REPLAY", ToJson([k |-> "c05", kind |-> "fill", text |-> text, o |-> op, pre |-> <<>>])>>)
       /\ \A i \in {x \in 1..Len(text) : text[x] = LF} :
             PrintT(<<"REPLAY", ToJson([k |-> "c09", a |-> SubSeq(text, 1, i - 1), b |-> SubSeq(text, i + 1, Len(text)), a2 |-> <<97, 32, 97>>, o |-> op])>>)
       /\ (~HasEsc(text) /\ Len(text) > 0) =>
             \A q \in MCSeqs : PrintT(<<"REPLAY", ToJson([k |-> "c13", col |-> SubSeq(text, 1, Len(text) \div 2) \o q \o SubSeq(text, (Len(text) \div 2) + 1, Len(text)), o |-> op])>>)
  /\ GoodPara(text) =>
       \A op \in {x \in PrefixOpts : x.width \in {1, 3}} :
          /\ PrintT(<<"REPLAY", ToJson([k |-> "c15", para |-> text, trail |-> (Len(text) % 2 = 0), o |-> op])>>)
          /\ PrintT(<<"REPLAY", ToJson([k |-> "c16", para |-> text, trail |-> (Len(text) % 2 = 1), o1 |-> op, o2 |-> [op EXCEPT !.width = 2]])>>)
=============================================================================
