------------------------------- MODULE MC_Wrap -------------------------------
(***************************************************************************)
(* Bounded model of a wrap() call (wrap.rs:180-292) as a state machine.    *)
(*                                                                         *)
(*  Type(c)    builds the text one character at a time                     *)
(*  Begin(o)   picks the options; the text is split at the line ending     *)
(*  ParaStart  one paragraph: indent choice, byte-length shortcut or, on   *)
(*             the general path, words -> split -> break -> sentinel       *)
(*             (operators whose own machines are MC_Words / MC_Break) and  *)
(*             the two target widths; for the Unicode separator the break  *)
(*             opportunities of the paragraph are a free input             *)
(*  FFStep/End the first-fit loop, one fragment per step  (or)             *)
(*  OptChoose  any minimum-cost arrangement (what optimal-fit may return)  *)
(*  EmitStep   line re-assembly (wrap.rs:247-291), one line per step, with *)
(*             the running *byte* index idx, the Cow kind of the line and  *)
(*             an explicit fault state for the slice line[idx..idx+len]    *)
(*  ParaEnd / Return                                                       *)
(*                                                                         *)
(* At `done` the call is turned into the same event record the harness     *)
(* logs and judged by Judge_wrap (C01, C02, C03, C05(i), C07, C08 and      *)
(* refinement of the operator WrapFF).                                     *)
(***************************************************************************)
EXTENDS PropsAll, MCChars, Json

CONSTANTS Alphabet, MaxLen, Widths, IndentPairs, BWs, Seps, Splitters, Algs, Crlfs

BIG == 999999999             \* usize::MAX under the abstraction of DESIGN 3.3
\* the last pair: initial indent wider in columns (2) than the subsequent one (1) but not longer in bytes (2 = 2)
MCIndentPairs == { << <<>>, <<>> >>, << <<62, 32>>, <<>> >>, << <<>>, <<32, 32>> >>, << <<20320>>, <<45>> >>, << <<32, 32, 32, 32>>, <<62, 32>> >>,
                   << <<32, 32>>, <<233>> >> }
MCIndentPairsSmall == { << <<>>, <<>> >>, << <<62, 32>>, <<>> >>, << <<>>, <<32, 32>> >> }
OptSet0 == { [width |-> w, ii |-> ip[1], si |-> ip[2], bw |-> bw, sep |-> sep, splitter |-> sp, alg |-> alg, pen |-> DefaultPen, crlf |-> cr] :
              w \in Widths, ip \in IndentPairs, bw \in BWs, sep \in Seps, sp \in Splitters, alg \in Algs, cr \in Crlfs }
\* optimal-fit costs are only exact (32-bit integers here, f64 in the code) for moderate widths
OptSet == { op \in OptSet0 : op.alg = "ff" \/ op.width < 10000 }

VARIABLES text, pc, o, prs, pk, out, pl, oppsv, loc, fault
vars == <<text, pc, o, prs, pk, out, pl, oppsv, loc, fault>>
\* loc: locals of the paragraph being wrapped
\*   line, base, ws (fragments), lws, ffi, ffstart, ffacc, arr, ek, idx
NoLoc == [line |-> <<>>, base |-> 0, ws |-> <<>>, lws |-> <<0, 0>>, ffi |-> 1, ffstart |-> 1, ffacc |-> 0, arr |-> <<>>, ek |-> 1, idx |-> 0]
NoOpts == [width |-> 0, ii |-> <<>>, si |-> <<>>, bw |-> TRUE, sep |-> "ascii", splitter |-> "none", alg |-> "ff", pen |-> DefaultPen, crlf |-> FALSE]

Init == /\ text = <<>> /\ pc = "type" /\ o = NoOpts /\ prs = <<>> /\ pk = 1 /\ out = <<>> /\ pl = <<>> /\ oppsv = <<>>
        /\ loc = NoLoc /\ fault = "none"

Type(c) == pc = "type" /\ Len(text) < MaxLen /\ text' = Append(text, c) /\ UNCHANGED <<pc, o, prs, pk, out, pl, oppsv, loc, fault>>
Begin(op) == /\ pc = "type" /\ o' = op /\ prs' = SplitEndingRanges(text, op.crlf) /\ pc' = "para"
             /\ UNCHANGED <<text, pk, out, pl, oppsv, loc, fault>>

ParaStart ==
  /\ pc = "para" /\ pk <= Len(prs)
  /\ LET line == SubSeq(text, prs[pk][1], prs[pk][2])
         base == prs[pk][1] - 1
     IN \E S \in (IF o.sep = "uax" THEN FreeOppSets(line) ELSE {{}}) :
        /\ oppsv' = Append(oppsv, S)
        /\ IF FastPath(line, o, Len(out))
           THEN /\ out' = out \o FastLine(line, base, Len(out)) /\ pl' = Append(pl, 1) /\ pk' = pk + 1
                /\ UNCHANGED <<pc, loc>>
           ELSE /\ loc' = [NoLoc EXCEPT !.line = line, !.base = base, !.ws = ParaWords(line, o, S), !.lws = ParaLineWidths(o, Len(out))]
                /\ pc' = (IF o.alg = "ff" THEN "ff" ELSE "opt")
                /\ UNCHANGED <<out, pl, pk>>
  /\ UNCHANGED <<text, o, prs, fault>>

FFStep ==
  /\ pc = "ff" /\ loc.ffi <= Len(loc.ws)
  /\ LET f == Frag(loc.ws[loc.ffi]) lw == LineW(loc.lws, Len(loc.arr)) IN
     IF FFBreaks(loc.ffacc, f, lw, loc.ffi, loc.ffstart)
     THEN loc' = [loc EXCEPT !.arr = Append(@, <<loc.ffstart, loc.ffi - 1>>), !.ffstart = loc.ffi, !.ffacc = f.w + f.ws, !.ffi = @ + 1]
     ELSE loc' = [loc EXCEPT !.ffacc = @ + f.w + f.ws, !.ffi = @ + 1]
  /\ UNCHANGED <<text, pc, o, prs, pk, out, pl, oppsv, fault>>
FFEnd ==
  /\ pc = "ff" /\ loc.ffi > Len(loc.ws)
  /\ loc' = [loc EXCEPT !.arr = Append(@, <<loc.ffstart, Len(loc.ws)>>)] /\ pc' = "emit"
  /\ UNCHANGED <<text, o, prs, pk, out, pl, oppsv, fault>>
OptChoose ==
  /\ pc = "opt"
  /\ LET fr == Frags(loc.ws) m == MinCostX(fr, loc.lws, o.pen) IN
     \E arr \in AllArrangements(Len(fr)) :
        /\ (Len(fr) = 0 \/ CostOfArr(fr, loc.lws, o.pen, arr) = m)
        /\ loc' = [loc EXCEPT !.arr = arr]
  /\ pc' = "emit" /\ UNCHANGED <<text, o, prs, pk, out, pl, oppsv, fault>>

\* byte lengths, as the Rust code computes them
WordBytes(line, wd) == BOff(line)[wd.e] - BOff(line)[wd.a]
WsBytes(line, wd) == BOff(line)[wd.b] - BOff(line)[wd.e]
RECURSIVE SumBytes(_, _, _, _, _)
SumBytes(line, ws, lo, hi, acc) == IF lo > hi THEN acc ELSE SumBytes(line, ws, lo + 1, hi, acc + WordBytes(line, ws[lo]) + WsBytes(line, ws[lo]))

EmitStep ==
  /\ pc = "emit" /\ loc.ek <= Len(loc.arr)
  /\ LET lo == loc.arr[loc.ek][1] hi == loc.arr[loc.ek][2]
         first == Len(out) = 0
         indent == IF first THEN o.ii ELSE o.si
         indname == IF first THEN "ii" ELSE "si"
     IN IF hi < lo
        THEN /\ out' = Append(out, (IF HasDev("pinned_empty_paragraph_no_indent")
                                    THEN [s |-> <<>>, ind |-> indname, a |-> loc.base + 1, e |-> loc.base + 1, hy |-> FALSE, bp |-> -1]
                                    ELSE [s |-> indent, ind |-> indname, a |-> loc.base + 1, e |-> loc.base + 1, hy |-> FALSE, bp |-> (IF Len(indent) = 0 THEN -1 ELSE 0)]))
             /\ loc' = [loc EXCEPT !.ek = @ + 1] /\ UNCHANGED <<fault, pc>>
        ELSE LET last == loc.ws[hi]
                 len == SumBytes(loc.line, loc.ws, lo, hi, 0) - WsBytes(loc.line, last)
                 idx2 == IF HasDev("idx_skips_no_whitespace") THEN loc.idx + len ELSE loc.idx + len + WsBytes(loc.line, last)
                 pa == PosOfByte(loc.line, loc.idx) pe == PosOfByte(loc.line, loc.idx + len)
             IN IF pa = 0 \/ pe = 0            \* &line[idx..idx + len]: out of range or not a char boundary
                THEN fault' = "wrap.rs:279 slice" /\ pc' = "done" /\ UNCHANGED <<out, loc>>
                ELSE /\ out' = Append(out, [s |-> indent \o SubSeq(loc.line, pa, pe - 1) \o (IF last.pen > 0 THEN <<HY>> ELSE <<>>),
                                            ind |-> indname, a |-> loc.base + pa, e |-> loc.base + pe, hy |-> last.pen > 0,
                                            bp |-> (IF Len(indent) = 0 /\ last.pen = 0 THEN loc.base + pa ELSE 0)])
                     /\ loc' = [loc EXCEPT !.ek = @ + 1, !.idx = idx2] /\ UNCHANGED <<fault, pc>>
  /\ UNCHANGED <<text, o, prs, pk, pl, oppsv>>
ParaEnd ==
  /\ pc = "emit" /\ loc.ek > Len(loc.arr)
  /\ pl' = Append(pl, Len(loc.arr)) /\ pk' = pk + 1 /\ pc' = "para" /\ loc' = NoLoc
  /\ UNCHANGED <<text, o, prs, out, oppsv, fault>>
Return == pc = "para" /\ pk > Len(prs) /\ pc' = "done" /\ UNCHANGED <<text, o, prs, pk, out, pl, oppsv, loc, fault>>

Next == (\E c \in Alphabet : Type(c)) \/ (\E op \in OptSet : Begin(op)) \/ ParaStart \/ FFStep \/ FFEnd \/ OptChoose \/ EmitStep \/ ParaEnd \/ Return
Spec == Init /\ [][Next]_vars /\ WF_vars(ParaStart \/ FFStep \/ FFEnd \/ OptChoose \/ EmitStep \/ ParaEnd \/ Return)

(* ---------- invariants ---------- *)
NoFault == fault = "none"
\* bookkeeping of the re-assembly loop: idx is the byte offset of the first word of the next line,
\* emitted slices are ordered, and `out` only grows
EmitInv == (pc = "emit" /\ loc.ek <= Len(loc.arr) /\ loc.arr[loc.ek][2] >= loc.arr[loc.ek][1])
             => loc.idx = BOff(loc.line)[loc.ws[loc.arr[loc.ek][1]].a]
OrderedInv == \A x \in 1..(Len(out) - 1) : out[x].e <= out[x + 1].a
FFInv == pc = "ff" => (loc.ffstart <= loc.ffi /\ loc.ffacc = AccW(Frags(loc.ws), loc.ffstart, loc.ffi, 0))
FragsContiguous == pc \in {"ff", "opt", "emit"} =>
   LET real == SelectSeq(loc.ws, LAMBDA wd : TRUE) IN
   \A x \in 1..(Len(real) - 1) : real[x].b = real[x + 1].a
AppendOnly == [][pc' # "type" => IsPrefix(out, out')]_vars

Ev == [ev |-> "wrap", tag |-> "MC", text |-> text, o |-> o,
       paras |-> [x \in 1..Len(oppsv) |-> [opps |-> SetToSortSeq(oppsv[x], <),
                                            st |-> (IF o.sep = "uax" THEN StripSeq(SubSeq(text, prs[x][1], prs[x][2])) ELSE <<>>)]],
       lines |-> [x \in 1..Len(out) |-> [s |-> out[x].s, bp |-> out[x].bp]], pl |-> pl, pc |-> TRUE,
       status |-> (IF fault = "none" THEN "ok" ELSE "panic")]
\* the machine models the code as it is, including the two recorded (unrepaired) findings K1 / K2 of
\* known_findings.json; their specific reasons are therefore not violations of the *model*
KnownReasons == {"a paragraph that fits was not returned as one unchanged line (escape sequence with an embedded space)",
                 "a paragraph that fits was not returned as one unchanged line (escape sequence containing a hyphen, hyphen splitter)",
                 "a first-fit line is wider than the width although it is not a single unbreakable fragment (indent alone wider than the width, zero-width fragments after it)"}
AllOk(cs) == \A x \in 1..Len(cs) : cs[x].ok \/ cs[x].r \in KnownReasons \/ (PrintT(<<"FAILED", cs[x].p, cs[x].c, cs[x].r>>) /\ FALSE)
PropWrap == pc = "done" => AllOk(Judge_wrap(Ev))
\* once a call has begun it returns (checked under weak fairness of the step actions: the algorithms terminate)
Terminates == (pc # "type") ~> (pc = "done")
\* Besides the plain call, a Unicode-separator behaviour is also replayed with a *custom* separator that cuts the
\* paragraphs exactly where the machine did for the opportunity sets TLC chose, so that the real split / break /
\* arrange / re-assemble pipeline is run on the very word lists of this behaviour.
Emit == pc = "done" =>
  /\ PrintT(<<"REPLAY", ToJson([k |-> "wrap", text |-> text, o |-> o])>>)
  /\ (o.sep = "uax" /\ o.alg = "ff") =>
        PrintT(<<"REPLAY", ToJson([k |-> "wrap", text |-> text, o |-> [o EXCEPT !.sep = "custom"],
                                   cuts |-> [x \in 1..Len(oppsv) |-> SetToSortSeq(UaxCutsOp(SubSeq(text, prs[x][1], prs[x][2]), oppsv[x]), <)]])>>)
=============================================================================
