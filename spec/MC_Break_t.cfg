SPECIFICATION Spec
CONSTANTS
  W <- MCW
  IsAlnum <- MCAlnum
  IsWs <- MCWs
  Dev = {}
  Sel = {"C12"}
  Alphabet = {97, 49, 45, 20320, 769, 27, 91, 109, 32}
  MaxLen = 5
  Limits = {0, 1, 2, 3, 4, 999999999}
  Splitters = {"none", "hyphen", "every2", "half"}
INVARIANTS BreakInv SplitInv SplitRefines PropBreak PropSplit Emit
CHECK_DEADLOCK FALSE
