------------------------------ MODULE TraceIndent -----------------------------
(***************************************************************************)
(* Step-level trace validation of dedent(): the events recorded through    *)
(* the crate's `verif-hooks` feature (one `dedent.narrow` per iteration of *)
(* the narrowing loop, one `dedent.margin` after it) are replayed through  *)
(* the actions Seed / Narrow / Output of the step machine MC_Indent.       *)
(* Seed and Output have no hook: they are *silent* machine steps, taken    *)
(* without consuming an event (the machine is deterministic, so the trace  *)
(* specification does not branch).  Every `dedent.narrow` event must find  *)
(* the machine in its narrowing pass with a line left, and the byte length *)
(* of the prefix after the step must be the logged one; the margin event   *)
(* must come exactly when the narrowing pass is over (or was never         *)
(* entered: no line with a non-whitespace character); the returned string  *)
(* must be the machine's.                                                  *)
(* indent(): one `indent.line` event per iteration of the                  *)
(* split_terminator loop (index, byte length of the result so far) is      *)
(* replayed through IndentStep; the step that appends the final newline    *)
(* is silent.                                                              *)
(***************************************************************************)
EXTENDS MC_Indent, IOUtils

Rec == ndJsonDeserialize(IOEnv.TRACE)
Tab == Rec[1]
TabN == Len(Tab.cp)
RECURSIVE TabFind(_, _, _)
TabFind(c, lo, hi) == IF lo >= hi THEN lo
                      ELSE LET mid == (lo + hi) \div 2 IN IF Tab.cp[mid] < c THEN TabFind(c, mid + 1, hi) ELSE TabFind(c, lo, mid)
TabPos(c) == TabFind(c, 1, TabN)
UW == Tab.wmode = "uw"
TraceW(c) == IF UW THEN Tab.w[TabPos(c)] ELSE CutoffW(c)
TraceIsAlnum(c) == Tab.an[TabPos(c)] = 1
TraceIsWs(c) == Tab.ws[TabPos(c)] = 1

VARIABLES l, mseen, kind
tvars == <<vars, l, mseen, kind>>
e == Rec[l]
IsEv(evk) == l <= Len(Rec) /\ Rec[l].ev = evk
Bump == TLCSet(5, l + 1)
Reject(why) ==
  /\ PrintT(<<"STEP", l, Rec[l].ev, why>>) /\ TLCSet(2, TLCGet(2) + 1)
  /\ pc' = "rejected" /\ UNCHANGED <<s, ls, k, prefix, dres, p, ik, ires, mseen, kind>>
Count == TLCSet(1, TLCGet(1) + 1)
Mismatch(why) == PrintT(<<"STEP", l, Rec[l].ev, why>>) /\ TLCSet(2, TLCGet(2) + 1)

\* silent machine steps (no hook): pass 1, and pass 3 once the margin event has been seen
SilentEnabled == \/ kind = "dedent" /\ (pc = "seed" \/ (pc = "output" /\ mseen))
                 \/ kind = "indent" /\ pc = "indent" /\ ik > Len(SplitTerminator(s, LF))
Silent == /\ SilentEnabled /\ (Seed \/ Output \/ IndentStep) /\ Count /\ UNCHANGED <<l, mseen, kind>>

T_Begin ==
  /\ IsEv("w.begin") /\ Bump
  /\ s' = e.s /\ ls' = Lines(e.s) /\ k' = 1 /\ prefix' = <<>> /\ dres' = <<>> /\ ik' = 1 /\ ires' = <<>>
  /\ kind' = e.kind /\ pc' = (IF e.kind = "dedent" THEN "seed" ELSE "indent") /\ p' = (IF e.kind = "dedent" THEN <<>> ELSE e.p)
  /\ mseen' = FALSE /\ TLCSet(3, TLCGet(3) + 1)
Skip == pc = "rejected" /\ l <= Len(Rec) /\ Rec[l].ev # "w.begin" /\ Bump /\ UNCHANGED <<vars, mseen, kind>>

\* one iteration of the second `for line in &mut lines`; the hook fires at the end of the body
T_Narrow ==
  /\ IsEv("d.narrow") /\ pc # "rejected" /\ ~SilentEnabled /\ Bump /\ UNCHANGED <<mseen, kind>>
  /\ IF ~(pc = "narrow" /\ k <= Len(ls)) THEN Reject("the narrowing loop has no line left: the code visits a line the specification does not")
     ELSE /\ Narrow
          /\ IF ByteLen(prefix') = e.plen THEN Count ELSE Mismatch("prefix length after this line differs")
\* after the narrowing loop (also reached when pass 1 found no line with a non-whitespace character)
T_Margin ==
  /\ IsEv("d.margin") /\ pc # "rejected" /\ ~SilentEnabled /\ Bump /\ UNCHANGED kind
  /\ IF mseen THEN Reject("second margin event")
     ELSE IF pc = "narrow" /\ k > Len(ls)
     THEN /\ Narrow /\ mseen' = TRUE
          /\ IF ByteLen(prefix) = e.plen THEN Count ELSE Mismatch("margin differs")
     ELSE IF pc = "output" /\ k = 1
     THEN /\ UNCHANGED vars /\ mseen' = TRUE
          /\ IF ByteLen(prefix) = e.plen THEN Count ELSE Mismatch("margin differs")
     ELSE Reject("the narrowing loop ended although the specification has lines left")
T_End ==
  /\ IsEv("d.end") /\ pc # "rejected" /\ ~SilentEnabled /\ Bump /\ UNCHANGED <<mseen, kind>>
  /\ IF e.status # "ok" THEN Reject("dedent panicked")
     ELSE IF pc # "indent" THEN Reject("dedent returned before the machine was done")
     ELSE /\ pc' = "idle" /\ UNCHANGED <<s, ls, k, prefix, dres, p, ik, ires>>
          /\ IF dres = e.res THEN Count /\ TLCSet(4, TLCGet(4) + 1) ELSE Mismatch("returned string differs from the machine's")

\* one iteration of `for (idx, line) in s.split_terminator('\n').enumerate()`; the hook fires at the end of the body
T_ILine ==
  /\ IsEv("n.line") /\ pc # "rejected" /\ ~SilentEnabled /\ Bump /\ UNCHANGED <<mseen, kind>>
  /\ IF ~(kind = "indent" /\ pc = "indent" /\ ik <= Len(SplitTerminator(s, LF))) THEN Reject("the loop of indent has no line left: the code visits a line the specification does not")
     ELSE IF e.idx # ik - 1 THEN Reject("line index differs")
     ELSE /\ IndentStep
          /\ IF ByteLen(ires') = e.len THEN Count ELSE Mismatch("length of the result after this line differs")
T_IEnd ==
  /\ IsEv("n.end") /\ pc # "rejected" /\ ~SilentEnabled /\ Bump /\ UNCHANGED <<mseen, kind>>
  /\ IF e.status # "ok" THEN Reject("indent panicked")
     ELSE IF pc # "done" THEN Reject("indent returned before the machine was done")
     ELSE /\ pc' = "idle" /\ UNCHANGED <<s, ls, k, prefix, dres, p, ik, ires>>
          /\ IF ires = e.res THEN Count /\ TLCSet(4, TLCGet(4) + 1) ELSE Mismatch("returned string differs from the machine's")

TraceInit == Init /\ kind = "dedent" /\ l = 2 /\ mseen = FALSE /\ TLCSet(1, 0) /\ TLCSet(2, 0) /\ TLCSet(3, 0) /\ TLCSet(4, 0) /\ TLCSet(5, 2)
TraceNext == ((T_Begin \/ Skip \/ T_Narrow \/ T_Margin \/ T_End \/ T_ILine \/ T_IEnd) /\ l' = l + 1) \/ Silent
TraceSpec == TraceInit /\ [][TraceNext]_tvars
Accepted ==
  /\ PrintT(<<"STEPSTATS", TLCGet(1), TLCGet(2), TLCGet(3), TLCGet(4), Len(Rec) - 1>>)
  /\ TLCGet(5) = Len(Rec) + 1
=============================================================================
