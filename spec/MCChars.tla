------------------------------- MODULE MCChars -------------------------------
(***************************************************************************)
(* Concrete per-character facts for the small alphabets of the bounded     *)
(* model-checking configurations (the values unicode-width 0.2.0 and std   *)
(* give for these code points).                                            *)
(***************************************************************************)
EXTENDS Naturals
cA == 97  cB == 98  c1 == 49  cM == 109  cSP == 32  cHY == 45  cNI == 20320  cEA == 233  cLF == 10  cCR == 13
cTAB == 9  cESC == 27  cLBR == 91  cRBR == 93  cSEMI == 59  cBEL == 7  cBSL == 92  cACUTE == 769  cSHY == 173
cWIDEH == 65320  cGT == 62  cHASH == 35  cSLASH == 47  cSTAR == 42  cPLUS == 43  cNBSP == 160  cBANG == 33  cPIPE == 124

MCW(c) == IF c \in {cNI, cWIDEH} THEN 2
          ELSE IF c \in {cLF, cCR, cTAB, cESC, cBEL, cACUTE, cSHY} THEN 0
          ELSE 1
MCAlnum(c) == c \in {cA, cB, c1, cM, cNI, cEA, cWIDEH}
MCWs(c) == c \in {cSP, cLF, cCR, cTAB, cNBSP}
=============================================================================
