------------------------------- MODULE MC_Ansi -------------------------------
(***************************************************************************)
(* Bounded model of display_width (core.rs:199-209) with the escape        *)
(* skipper (core.rs:52-83) as an explicit scanner.  A session types a      *)
(* string character by character (so TLC enumerates every string up to     *)
(* MaxLen over Alphabet), then runs the accumulation loop one character    *)
(* per step.                                                               *)
(*                                                                         *)
(* Checked (C10): the loop refines the operator DW; DW equals the          *)
(* declarative strip-and-sum definition on well-formed strings; DW never   *)
(* exceeds the byte length; additivity over ESC-free strings; invariance   *)
(* under insertion of a well-formed sequence at any position outside a     *)
(* sequence.  Every completed behaviour is emitted as a REPLAY record.     *)
(***************************************************************************)
EXTENDS Ansi, MCChars, Json

CONSTANTS Alphabet, MaxLen, Seqs      \* Seqs: well-formed sequences to insert

MCSeqs == { <<27, 91, 109>>, <<27, 93, 7>>, <<27, 93, 97, 27, 92>>, <<27, 91, 91>> }

VARIABLES s, pc, i, st, width
vars == <<s, pc, i, st, width>>

Init == s = <<>> /\ pc = "type" /\ i = 1 /\ st = "T" /\ width = 0

Type(c) == pc = "type" /\ Len(s) < MaxLen /\ s' = Append(s, c) /\ UNCHANGED <<pc, i, st, width>>
Begin   == pc = "type" /\ pc' = "scan" /\ UNCHANGED <<s, i, st, width>>
\* one iteration of `while let Some(ch) = chars.next()`, with the skipper unrolled into the scanner state
Step    == /\ pc = "scan" /\ i <= Len(s)
           /\ st' = ScanNext(st, s[i])
           /\ width' = IF st = "T" /\ s[i] # ESC THEN width + W(s[i]) ELSE width
           /\ i' = i + 1 /\ UNCHANGED <<s, pc>>
Finish  == pc = "scan" /\ i > Len(s) /\ pc' = "done" /\ UNCHANGED <<s, i, st, width>>
Next == (\E c \in Alphabet : Type(c)) \/ Begin \/ Step \/ Finish
Spec == Init /\ [][Next]_vars /\ WF_vars(Step \/ Finish)

TypeOK == /\ s \in Seq(Alphabet) /\ pc \in {"type", "scan", "done"} /\ i \in 1..(MaxLen + 1)
          /\ st \in ScanStates /\ width \in Nat
\* loop invariant: scanner state and partial sum
StepInv == pc = "scan" => (st = Pre(s)[i] /\ width = DW(SubSeq(s, 1, i - 1)) )
Refines == pc = "done" => width = DW(s)
Bounded == pc = "done" => width <= ByteLen(s)
Declarative == (pc = "done" /\ Parses(s)) => (width = DWDecl(s) /\ StripSeq(s) = StripDecl(s))
Additive == (pc = "done" /\ ~HasEsc(s)) => \A k \in 0..Len(s) : DW(SubSeq(s, 1, k)) + DW(SubSeq(s, k + 1, Len(s))) = width
InsertInvariant ==
  (pc = "done" /\ Parses(s)) =>
     \A k \in 0..Len(s) : Pre(s)[k + 1] = "T" =>
        \A q \in Seqs : DW(SubSeq(s, 1, k) \o q \o SubSeq(s, k + 1, Len(s))) = width
\* the lemma that lets per-word widths bound a line's width (C02): for strictly well-formed strings,
\* joining two parts by spaces never makes the whole wider than the parts
JoinLemma ==
  (pc = "done" /\ WellFormed(s)) =>
     \A k \in 1..Len(s) : s[k] = SP => DW(s) <= DW(SubSeq(s, 1, k - 1)) + 1 + DW(SubSeq(s, k + 1, Len(s)))
CharLemma == \A c \in Alphabet : W(c) <= Utf8Len(c)
\* once a call has begun it returns (checked under weak fairness of the step actions: the algorithms terminate)
Terminates == (pc # "type") ~> (pc = "done")
Emit == pc = "done" => PrintT(<<"REPLAY", ToJson([k |-> "dw", s |-> s])>>)
=============================================================================
