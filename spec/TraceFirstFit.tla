------------------------------ MODULE TraceFirstFit ---------------------------
(***************************************************************************)
(* Step-level trace validation of wrap_first_fit() on raw fragments: one   *)
(* `first_fit.step` event per fragment (index, line width used, width      *)
(* accumulated so far, break decision, lines so far) is replayed through   *)
(* FFStep of the step machine MC_FirstFit; FFEnd is silent.                *)
(***************************************************************************)
EXTENDS MC_FirstFit, IOUtils

Rec == ndJsonDeserialize(IOEnv.TRACE)
Tab == Rec[1]
TabN == Len(Tab.cp)
RECURSIVE TabFind(_, _, _)
TabFind(c_, lo, hi) == IF lo >= hi THEN lo
                       ELSE LET mid == (lo + hi) \div 2 IN IF Tab.cp[mid] < c_ THEN TabFind(c_, mid + 1, hi) ELSE TabFind(c_, lo, mid)
TabPos(c_) == TabFind(c_, 1, TabN)
UW == Tab.wmode = "uw"
TraceW(c_) == IF UW THEN Tab.w[TabPos(c_)] ELSE CutoffW(c_)
TraceIsAlnum(c_) == Tab.an[TabPos(c_)] = 1
TraceIsWs(c_) == Tab.ws[TabPos(c_)] = 1

VARIABLE l
tvars == <<vars, l>>
e == Rec[l]
IsEv(evk) == l <= Len(Rec) /\ Rec[l].ev = evk
Bump == TLCSet(5, l + 1)
Reject(why) ==
  /\ PrintT(<<"STEP", l, Rec[l].ev, why>>) /\ TLCSet(2, TLCGet(2) + 1)
  /\ pc' = "rejected" /\ UNCHANGED <<fs, lws, i, start, acc, lines>>
Count == TLCSet(1, TLCGet(1) + 1)
Mismatch(why) == PrintT(<<"STEP", l, Rec[l].ev, why>>) /\ TLCSet(2, TLCGet(2) + 1)

SilentEnabled == pc = "loop" /\ i > Len(fs)
Silent == SilentEnabled /\ FFEnd /\ Count /\ UNCHANGED l

T_Begin ==
  /\ IsEv("w.begin") /\ Bump
  /\ fs' = [x \in 1..Len(e.fs) |-> [w |-> e.fs[x][1], ws |-> e.fs[x][2], pw |-> e.fs[x][3]]] /\ lws' = e.lws
  /\ pc' = "loop" /\ i' = 1 /\ start' = 1 /\ acc' = 0 /\ lines' = <<>> /\ TLCSet(3, TLCGet(3) + 1)
Skip == pc = "rejected" /\ l <= Len(Rec) /\ Rec[l].ev # "w.begin" /\ Bump /\ UNCHANGED vars

\* one iteration of `for (idx, fragment) in fragments.iter().enumerate()`; the hook fires before the break test
T_Step ==
  /\ IsEv("f.step") /\ pc # "rejected" /\ ~SilentEnabled /\ Bump
  /\ IF ~(pc = "loop" /\ i <= Len(fs)) THEN Reject("no fragment left")
     ELSE IF e.idx # i - 1 THEN Reject("fragment index differs")
     ELSE /\ FFStep
          /\ IF e.lw = LineW(lws, Len(lines)) /\ e.acc = acc /\ e.nl = Len(lines) /\ (e.brk = 1) = (Len(lines') > Len(lines)) THEN Count
             ELSE Mismatch("line width / accumulated width / decision differ")
T_End ==
  /\ IsEv("f.end") /\ pc # "rejected" /\ ~SilentEnabled /\ Bump
  /\ IF e.status # "ok" THEN Reject("wrap_first_fit panicked")
     ELSE IF pc # "done" THEN Reject("wrap_first_fit returned before the machine was done")
     ELSE /\ pc' = "idle" /\ UNCHANGED <<fs, lws, i, start, acc, lines>>
          /\ IF lines = e.res THEN Count /\ TLCSet(4, TLCGet(4) + 1) ELSE Mismatch("returned lines differ from the machine's")

TraceInit == Init /\ l = 2 /\ TLCSet(1, 0) /\ TLCSet(2, 0) /\ TLCSet(3, 0) /\ TLCSet(4, 0) /\ TLCSet(5, 2)
TraceNext == ((T_Begin \/ Skip \/ T_Step \/ T_End) /\ l' = l + 1) \/ Silent
TraceSpec == TraceInit /\ [][TraceNext]_tvars
Accepted ==
  /\ PrintT(<<"STEPSTATS", TLCGet(1), TLCGet(2), TLCGet(3), TLCGet(4), Len(Rec) - 1>>)
  /\ TLCGet(5) = Len(Rec) + 1
=============================================================================
