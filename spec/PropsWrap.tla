------------------------------ MODULE PropsWrap ------------------------------
(***************************************************************************)
(* Verdict predicates for events that record one call of wrap / fill:      *)
(* C01 (slices), C02 (fit), C03 text level (minimum cost), C05(i) (text    *)
(* that fits), C07 text level (greedy), C08 (indents), plus the drift      *)
(* check against the operational model of Wrap.tla.                        *)
(*                                                                         *)
(* Only observables are used: the returned lines, their Cow kind and       *)
(* pointer offset, and (as a hint whose consistency the harness reports)   *)
(* how many lines each paragraph contributed when the same text is wrapped *)
(* paragraph by paragraph through the cfg(fuzzing) entry point.            *)
(***************************************************************************)
EXTENDS Props

IndentOfK(o, k) == IF k = 1 THEN o.ii ELSE o.si
CustomSplitter(o) == o.splitter \in {"every2", "every3"}

(* ---------- the cursor walk of C01 ---------- *)
\* a character not covered by a slice must be an ASCII space or part of a line-ending sequence
Skippable(t, crlf, i) ==
  \/ t[i] = SP
  \/ (IF crlf THEN (t[i] = CR /\ i < Len(t) /\ t[i + 1] = LF) \/ (t[i] = LF /\ i > 1 /\ t[i - 1] = CR)
      ELSE t[i] = LF)
SkipMask(t, crlf) == [i \in 1..Len(t) |-> Skippable(t, crlf, i)]
AllSkip(mask, a, b) == \A i \in a..(b - 1) : mask[i]

\* smallest start >= cur such that t[cur..start) is skippable and r matches at start; 0 if none
RECURSIVE FindStart(_, _, _, _)
FindStart(t, mask, cur, r) ==
  IF cur > Len(t) + 1 THEN 0
  ELSE IF MatchAt(t, cur, r) \/ Len(r) = 0 THEN cur
  ELSE IF cur <= Len(t) /\ mask[cur] THEN FindStart(t, mask, cur + 1, r) ELSE 0

WalkFail == [ok |-> FALSE, sl |-> <<>>]
\* cx = [t, mask, lines (records with s, bp), inds (indent of each line), hyins]
\* result: ok, and for each line the slice <<p, q, hy>> = t[p..q), hy = a hyphen was inserted after it
RECURSIVE Walk(_, _, _, _)
Walk(cx, k, cur, acc) ==
  IF k > Len(cx.lines) THEN (IF AllSkip(cx.mask, cur, Len(cx.t) + 1) THEN [ok |-> TRUE, sl |-> acc] ELSE WalkFail)
  ELSE LET ln == cx.lines[k].s ind == cx.inds[k] IN
       IF ~StartsWith(ln, ind) THEN WalkFail
       ELSE LET r == SubSeq(ln, Len(ind) + 1, Len(ln))
                bp == cx.lines[k].bp
                \* a borrowed line tells its own position
                p1 == IF bp >= 1 /\ Len(ind) = 0 /\ Len(r) > 0
                      THEN (IF bp >= cur /\ AllSkip(cx.mask, cur, bp) /\ MatchAt(cx.t, bp, r) THEN bp ELSE 0)
                      ELSE FindStart(cx.t, cx.mask, cur, r)
                try1 == IF p1 > 0 THEN Walk(cx, k + 1, p1 + Len(r), Append(acc, <<p1, p1 + Len(r), FALSE>>)) ELSE WalkFail
            IN IF try1.ok THEN try1
               ELSE IF cx.hyins /\ Len(r) > 0 /\ r[Len(r)] = HY
                    THEN LET r2 == SubSeq(r, 1, Len(r) - 1) p2 == FindStart(cx.t, cx.mask, cur, r2)
                         IN IF p2 > 0 THEN Walk(cx, k + 1, p2 + Len(r2), Append(acc, <<p2, p2 + Len(r2), TRUE>>)) ELSE WalkFail
                    ELSE WalkFail

TextWalk(e) ==
  Walk([t |-> e.text, mask |-> SkipMask(e.text, e.o.crlf), lines |-> e.lines,
        inds |-> [k \in 1..Len(e.lines) |-> IndentOfK(e.o, k)], hyins |-> CustomSplitter(e.o)], 1, 1, <<>>)

(* ---------- intended fragments of a paragraph (vocabulary for the verdicts) ---------- *)
UaxCutsDecl(s, opps) ==
  LET p == Pre(s) vc == VisCounts(s, p, 1, <<0>>) IN {OrigOf(s, p, vc, x) : x \in UaxKeptDecl(s, opps)} \ {0, 1}
IntendedWords(s, sep, opps) == WordsFromCuts(s, IF sep = "uax" THEN UaxCutsDecl(s, opps) ELSE AsciiCuts(s))
SubWidth(o) == SatSub(o.width, DW(o.si))
IntendedSplit(s, o, opps) == SplitWords(s, IntendedWords(s, o.sep, opps), o.splitter)
IntendedFrags(s, o, opps) == LET w2 == IntendedSplit(s, o, opps) IN IF o.bw THEN BreakWords(s, w2, SubWidth(o)) ELSE w2

ParaRanges(e) == SplitEndingRanges(e.text, e.o.crlf)
ParaText(e, prs, j) == SubSeq(e.text, prs[j][1], prs[j][2])
ParaOpps(e, j) == IF e.o.sep = "uax" THEN ToSet(e.paras[j].opps) ELSE {}
\* index of the paragraph containing text position i (0 if i is in a line ending)
ParaOfPos(prs, i) == LET c == {j \in 1..Len(prs) : prs[j][1] <= i /\ i <= prs[j][2]} IN IF c = {} THEN 0 ELSE CHOOSE j \in c : TRUE

OracleConsistent(e) ==
  LET prs == ParaRanges(e) IN
  /\ Len(e.paras) = Len(prs)
  /\ e.o.sep = "uax" => \A j \in 1..Len(prs) : e.paras[j].st = StripSeq(ParaText(e, prs, j))

(* ---------- C08 ---------- *)
C08ok(e) == Len(e.lines) >= 1 /\ \A k \in 1..Len(e.lines) : StartsWith(e.lines[k].s, IndentOfK(e.o, k))

(* ---------- C01 ---------- *)
\* the slice t[p..q) may end in a space only where break_words cut an over-wide word that itself
\* contains a space (Unicode separator only)
SpaceException(e, prs, q) ==
  /\ e.o.bw /\ e.o.sep = "uax"
  /\ LET j == ParaOfPos(prs, q - 1) IN
     j > 0 /\ LET base == prs[j][1] - 1
                  ws == IntendedSplit(ParaText(e, prs, j), e.o, ParaOpps(e, j))
              IN \E k \in 1..Len(ws) : ws[k].w > SubWidth(e.o) /\ ws[k].a + base < q /\ q < ws[k].e + base

C01ok(e, wk) ==
  /\ wk.ok
  /\ \A k \in 1..Len(e.lines) :
       (Len(IndentOfK(e.o, k)) = 0 /\ ~wk.sl[k][3] /\ Len(e.lines[k].s) > 0) => e.lines[k].bp >= 1      \* borrowed from the caller's buffer
  /\ LET prs == ParaRanges(e) IN
     \A k \in 1..Len(e.lines) :
       LET p == wk.sl[k][1] q == wk.sl[k][2] IN
       (q > p /\ e.text[q - 1] = SP) => SpaceException(e, prs, q)

(* ---------- C02 ---------- *)
RECURSIVE NonZeroVisAcc(_, _, _, _)
NonZeroVisAcc(s, p, i, acc) == IF i > Len(s) THEN acc ELSE NonZeroVisAcc(s, p, i + 1, IF VisAt(s, p, i) /\ W(s[i]) > 0 THEN acc + 1 ELSE acc)
NonZeroVis(s) == NonZeroVisAcc(s, Pre(s), 1, 0)

C02Line(e, wk, prs, k) ==
  LET ln == e.lines[k].s ind == IndentOfK(e.o, k) IN
  \/ DW(ln) <= e.o.width
  \/ /\ StartsWith(ln, ind)
     /\ LET r == SubSeq(ln, Len(ind) + 1, Len(ln)) IN
        IF e.o.bw THEN NonZeroVis(r) <= 1
        ELSE wk.ok /\ LET p == wk.sl[k][1] q == wk.sl[k][2] IN
             q > p => LET j == ParaOfPos(prs, p) IN
                      j > 0 /\ LET base == prs[j][1] - 1
                                   fs == IntendedSplit(ParaText(e, prs, j), e.o, ParaOpps(e, j))
                               IN \A f \in 2..Len(fs) : ~(p < fs[f].a + base /\ fs[f].a + base < q)
C02ok(e, wk) == LET prs == ParaRanges(e) IN \A k \in 1..Len(e.lines) : C02Line(e, wk, prs, k)

(* ---------- per-paragraph view (uses the line-count hint pl) ---------- *)
RECURSIVE PrefixSumsAcc(_, _, _)
PrefixSumsAcc(xs, k, acc) == IF k > Len(xs) THEN acc ELSE PrefixSumsAcc(xs, k + 1, Append(acc, acc[k] + xs[k]))
HintUsable(e) == e.pc /\ Len(e.pl) = Len(ParaRanges(e)) /\ SumSeq(e.pl) = Len(e.lines)

\* walk of paragraph j alone: only spaces are skippable inside a paragraph
ParaWalk(e, P, first, n) ==
  Walk([t |-> P, mask |-> [i \in 1..Len(P) |-> P[i] = SP],
        lines |-> [k \in 1..n |-> [s |-> e.lines[first + k - 1].s, bp |-> 0]],
        inds |-> [k \in 1..n |-> IndentOfK(e.o, first + k - 1)], hyins |-> CustomSplitter(e.o)], 1, 1, <<>>)

\* fragments fs (paragraph coordinates) + slices -> arrangement <<first,last>>; <<>> if the lines are not
\* an arrangement of these fragments
RECURSIVE Assign(_, _, _, _, _)
Assign(fs, sl, k, q, acc) ==
  IF k > Len(sl) THEN (IF q = Len(fs) + 1 THEN acc ELSE <<>>)
  ELSE IF q > Len(fs) THEN <<>>
  ELSE LET st == sl[k][1] en == sl[k][2] IN
       IF en = st
       THEN (IF fs[q].e = fs[q].a THEN Assign(fs, sl, k + 1, q + 1, Append(acc, <<q, q>>)) ELSE <<>>)
       ELSE IF fs[q].a # st THEN <<>>
       ELSE LET H == {h \in q..Len(fs) : fs[h].e = en} IN
            IF H = {} THEN <<>> ELSE LET h == Min(H) IN Assign(fs, sl, k + 1, h + 1, Append(acc, <<q, h>>))
ArrangementOf(fs, sl) == IF Len(fs) = 0 THEN (IF Len(sl) = 1 /\ sl[1][1] = sl[1][2] THEN << <<1, 0>> >> ELSE <<>>) ELSE Assign(fs, sl, 1, 1, <<>>)

\* widths against which the lines of a paragraph are actually rendered: its first line carries the initial
\* indent iff it is the very first line of the result
ActualWidths(o, first) == << SatSub(o.width, DW(IndentOfK(o, first))), SubWidth(o) >>

\* TRUE iff the lines of paragraph j are an arrangement A of the intended fragments (with or without the
\* zero-width sentinel in front) such that Good(fragments, widths, A)
ParaGreedy(e, P, opps, first, n) ==
  LET wk == ParaWalk(e, P, first, n)
      f0 == IntendedFrags(P, e.o, opps)
      f1 == <<Sentinel>> \o f0
      lws == ActualWidths(e.o, first)
      good(fs) == LET arr == ArrangementOf(fs, wk.sl) IN arr # <<>> /\ IsGreedy(Frags(fs), lws, arr)
  IN wk.ok /\ (good(f0) \/ good(f1))

C07text(e) ==
  LET prs == ParaRanges(e) starts == PrefixSumsAcc(e.pl, 1, <<0>>) IN
  \A j \in 1..Len(prs) : ParaGreedy(e, ParaText(e, prs, j), ParaOpps(e, j), starts[j] + 1, e.pl[j])


\* "exact" | "skip": can the cost comparison be done exactly in 32-bit integers for every paragraph?
ParaOptimal(e, P, opps, first, n) ==
  LET wk == ParaWalk(e, P, first, n)
      f0 == IntendedFrags(P, e.o, opps)
      f1 == <<Sentinel>> \o f0
      lws == ActualWidths(e.o, first)
      good(fs) == LET arr == ArrangementOf(fs, wk.sl) fr == Frags(fs) IN
                  arr # <<>> /\ (Len(fs) = 0 \/ CostOfArr(fr, lws, e.o.pen, arr) = MinCostDP(fr, lws, e.o.pen))
  IN IF ~(CostExact(Frags(f1), lws, e.o.pen) /\ PenaltyOk(Frags(f0))) THEN TRUE
     ELSE wk.ok /\ (good(f0) \/ good(f1))

C03text(e) ==
  LET prs == ParaRanges(e) starts == PrefixSumsAcc(e.pl, 1, <<0>>) IN
  \A j \in 1..Len(prs) : ParaOptimal(e, ParaText(e, prs, j), ParaOpps(e, j), starts[j] + 1, e.pl[j])

(* ---------- C05 (i): a paragraph that fits comes back as one unchanged line ---------- *)
\* an escape sequence with a space inside is split by the ASCII separator (and may be by UAX#14): the
\* per-word widths then no longer add up to the paragraph's display width.  Reported separately.
RECURSIVE SpaceInSeqFrom(_, _, _)
SpaceInSeqFrom(s, p, i) == IF i > Len(s) THEN FALSE ELSE ((p[i] # "T" /\ s[i] = SP) \/ SpaceInSeqFrom(s, p, i + 1))
SpaceInsideSeq(s) == SpaceInSeqFrom(s, Pre(s), 1)

C05Applies(o) == o.splitter \in {"none", "hyphen"} /\ (o.alg = "ff" \/ o.pen = DefaultPen)
C05Para(e, P, first, n) ==
  LET ind == IndentOfK(e.o, first) IN
  (DW(P) + DW(ind) <= e.o.width) => (n = 1 /\ e.lines[first].s = ind \o TrimEndSpaces(P))
C05i(e, strange) ==
  LET prs == ParaRanges(e) starts == PrefixSumsAcc(e.pl, 1, <<0>>) IN
  \A j \in 1..Len(prs) : LET P == ParaText(e, prs, j) IN
     (SpaceInsideSeq(P) = strange) => C05Para(e, P, starts[j] + 1, e.pl[j])

(* ---------- the event ---------- *)
WrapOppss(e) == [j \in 1..Len(e.paras) |-> ToSet(e.paras[j].opps)]
LineStringsOf(e) == [k \in 1..Len(e.lines) |-> e.lines[k].s]
TextWellFormed(e) == WellFormed(e.text) /\ WellFormed(e.o.ii) /\ WellFormed(e.o.si)

Judge_wrap(e) ==
  LET wk == TextWalk(e) usable == HintUsable(e) IN
  On("C04", << Chk("C04", "VERDICT", "wrap panicked", Ok(e)) >>) \o
  (IF ~Ok(e) THEN << Chk(e.tag, "VERDICT", "wrap panicked", e.tag \notin Sel) >> ELSE
  << Chk("TOOL", "TOOL", "paragraph oracle data inconsistent with the specification's split / strip", OracleConsistent(e)) >> \o
  On("C08", << Chk("C08", "VERDICT", "a line does not start with the configured indent", C08ok(e)) >>) \o
  On("C01", << Chk("C01", "VERDICT", "lines are not indent + in-order slices of the input (or a needlessly owned / space-terminated slice)", C01ok(e, wk)) >>) \o
  On("C02", IF e.o.alg = "ff" /\ TextWellFormed(e) /\ ~CustomSplitter(e.o)
            THEN << Chk("C02", "VERDICT", "a first-fit line is wider than the width although it is not a single unbreakable fragment", C02ok(e, wk)) >>
            ELSE <<>>) \o
  On("C07", IF e.o.alg = "ff" /\ usable
            THEN << Chk("C07", "VERDICT", "first-fit lines are not the greedy arrangement of the paragraph's fragments", C07text(e)) >>
            ELSE <<>>) \o
  On("C03", IF e.o.alg = "opt" /\ usable /\ ~CustomSplitter(e.o)
            THEN << Chk("C03", "VERDICT", "optimal-fit lines are not a minimum-cost arrangement of the paragraph's fragments", C03text(e)) >>
            ELSE <<>>) \o
  On("C05", IF usable /\ C05Applies(e.o)
            THEN << Chk("C05", "VERDICT", "a paragraph that fits was not returned as one unchanged line", C05i(e, FALSE)),
                    Chk("C05", "VERDICT", "a paragraph that fits was not returned as one unchanged line (escape sequence with an embedded space)", C05i(e, TRUE)) >>
            ELSE <<>>) \o
  (IF e.o.alg = "ff"
   THEN << Chk(e.tag, "DRIFT", "wrap (first-fit) differs from the operational model", LineStringsOf(e) = LineStrings(WrapFF(e.text, e.o, WrapOppss(e)))) >>
   ELSE <<>>))

Judge_fill(e) ==
  On("C04", << Chk("C04", "VERDICT", "fill panicked", Ok(e)) >>) \o
  (IF ~Ok(e) THEN << Chk(e.tag, "VERDICT", "fill panicked", e.tag \notin Sel) >> ELSE
  << Chk("TOOL", "TOOL", "paragraph oracle data inconsistent with the specification's split / strip", OracleConsistent(e)) >> \o
  On("C09", << Chk("C09", "VERDICT", "fill is not wrap's lines joined by the line ending", e.res = Join(e.wlines, Ending(e.o))) >>) \o
  On("C01", << Chk("C01", "VERDICT", "fill is not wrap's lines joined by the line ending", e.res = Join(e.wlines, Ending(e.o))) >>) \o
  (IF e.o.alg = "ff"
   THEN << Chk(e.tag, "DRIFT", "fill (first-fit) differs from the operational model", e.res = FillFF(e.text, e.o, WrapOppss(e))) >>
   ELSE <<>>))
=============================================================================
