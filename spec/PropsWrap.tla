------------------------------ MODULE PropsWrap ------------------------------
(***************************************************************************)
(* Verdict predicates for events that record one call of wrap / fill:      *)
(* C01 (slices), C02 (fit), C03 text level (minimum cost), C05(i) (text    *)
(* that fits), C07 text level (greedy), C08 (indents), plus the drift      *)
(* check against the operational model of Wrap.tla.                        *)
(*                                                                         *)
(* Only observables are used: the returned lines, their Cow kind and       *)
(* pointer offset, and (as a hint whose consistency the harness reports)   *)
(* how many lines each paragraph contributed when the same text is wrapped *)
(* paragraph by paragraph through the cfg(fuzzing) entry point.            *)
(***************************************************************************)
EXTENDS Props

IndentOfK(o, k) == IF k = 1 THEN o.ii ELSE o.si
CustomSplitter(o) == o.splitter \in {"every2", "every3", "half"}

(* ---------- the cursor walk of C01 ---------- *)
\* a character not covered by a slice must be an ASCII space or part of a line-ending sequence
Skippable(t, crlf, i) ==
  \/ t[i] = SP
  \/ (IF crlf THEN (t[i] = CR /\ i < Len(t) /\ t[i + 1] = LF) \/ (t[i] = LF /\ i > 1 /\ t[i - 1] = CR)
      ELSE t[i] = LF)
SkipMask(t, crlf) == [i \in 1..Len(t) |-> Skippable(t, crlf, i)]
AllSkip(mask, a, b) == \A i \in a..(b - 1) : mask[i]

\* all starts p >= cur such that t[cur..p) is skippable and r matches at p (increasing order)
Starts(t, mask, cur, r) ==
  SetToSortSeq({p \in cur..(Len(t) + 1) : AllSkip(mask, cur, p) /\ (Len(r) = 0 \/ MatchAt(t, p, r))}, <)

WalkFail == [ok |-> FALSE, sl |-> <<>>]
\* cx = [t, mask, lines (records with s, bp), inds (indent of each line), hyins, strict (enforce the borrow clause)]
\* result: ok, and for each line the slice <<p, q, hy>> = t[p..q), hy = a hyphen was inserted after it.
\* The walk is existential: it backtracks over every admissible position of every line.
RECURSIVE Walk(_, _, _, _), TryStarts(_, _, _, _, _, _, _)
TryStarts(cx, k, cands, i, r, hy, acc) ==
  IF i > Len(cands) THEN WalkFail
  ELSE LET p == cands[i]
           \* a slice may end in a space only at the positions cx.spaceok allows (the space-at-end clause of C01)
           endok == Len(r) = 0 \/ r[Len(r)] # SP \/ (p + Len(r)) \in cx.spaceok \/ (hy /\ cx.hyspace)
           res == IF endok THEN Walk(cx, k + 1, p + Len(r), Append(acc, <<p, p + Len(r), hy>>)) ELSE WalkFail
       IN IF res.ok THEN res ELSE TryStarts(cx, k, cands, i + 1, r, hy, acc)
Walk(cx, k, cur, acc) ==
  IF k > Len(cx.lines) THEN (IF AllSkip(cx.mask, cur, Len(cx.t) + 1) THEN [ok |-> TRUE, sl |-> acc] ELSE WalkFail)
  ELSE LET ln == cx.lines[k].s ind == cx.inds[k] IN
       IF ~StartsWith(ln, ind) THEN WalkFail
       ELSE LET r == SubSeq(ln, Len(ind) + 1, Len(ln))
                bp == cx.lines[k].bp
                \* a line borrowed from the caller's buffer tells its own position and cannot carry an inserted
                \* hyphen; a non-empty line without indent that is *not* borrowed from the buffer can only be
                \* explained by an inserted hyphen (the borrow clause of C01)
                inbuf == bp >= 1 /\ Len(ind) = 0 /\ Len(r) > 0
                mustborrow == Len(ind) = 0 /\ Len(r) > 0 /\ cx.strict
                c1 == IF inbuf THEN (IF bp >= cur /\ AllSkip(cx.mask, cur, bp) /\ MatchAt(cx.t, bp, r) THEN <<bp>> ELSE <<>>)
                      ELSE IF mustborrow THEN <<>>
                      ELSE Starts(cx.t, cx.mask, cur, r)
                try1 == TryStarts(cx, k, c1, 1, r, FALSE, acc)
            IN IF try1.ok THEN try1
               ELSE IF cx.hyins /\ ~inbuf /\ Len(r) > 0 /\ r[Len(r)] = HY
                    THEN LET r2 == SubSeq(r, 1, Len(r) - 1) IN TryStarts(cx, k, Starts(cx.t, cx.mask, cur, r2), 1, r2, TRUE, acc)
                    ELSE WalkFail


(* ---------- intended fragments of a paragraph (vocabulary for the verdicts) ---------- *)
UaxCutsDecl(s, opps) ==
  LET p == Pre(s) vc == VisCounts(s, p, 1, <<0>>) IN {OrigOf(s, p, vc, x) : x \in UaxKeptDecl(s, opps)} \ {0, 1}
IntendedWords(s, sep, opps) == WordsFromCuts(s, IF sep = "uax" THEN UaxCutsDecl(s, opps) ELSE AsciiCuts(s))
SubWidth(o) == SatSub(o.width, DW(o.si))
IntendedSplit(s, o, opps) == SplitWords(s, IntendedWords(s, o.sep, opps), o.splitter)
IntendedFrags(s, o, opps) == LET w2 == IntendedSplit(s, o, opps) IN IF o.bw THEN BreakWords(s, w2, SubWidth(o)) ELSE w2

ParaRanges(e) == SplitEndingRanges(e.text, e.o.crlf)
ParaText(e, prs, j) == SubSeq(e.text, prs[j][1], prs[j][2])
ParaOpps(e, j) == IF e.o.sep \in {"uax", "custom"} THEN ToSet(e.paras[j].opps) ELSE {}
\* index of the paragraph containing text position i (0 if i is in a line ending)
ParaOfPos(prs, i) == LET c == {j \in 1..Len(prs) : prs[j][1] <= i /\ i <= prs[j][2]} IN IF c = {} THEN 0 ELSE CHOOSE j \in c : TRUE

OracleConsistent(e) ==
  LET prs == ParaRanges(e) IN
  /\ Len(e.paras) = Len(prs)
  /\ e.o.sep = "uax" => \A j \in 1..Len(prs) : /\ e.paras[j].st = StripSeq(ParaText(e, prs, j))
                                                  /\ OppsSane(ParaText(e, prs, j), ToSet(e.paras[j].opps))

(* ---------- C08 ---------- *)
C08ok(e) == Len(e.lines) >= 1 /\ \A k \in 1..Len(e.lines) : StartsWith(e.lines[k].s, IndentOfK(e.o, k))

(* ---------- C01 ---------- *)
\* the slice t[p..q) may end in a space only where break_words cut an over-wide word that itself
\* contains a space (Unicode separator only)
SpaceException(e, prs, q) ==
  /\ e.o.bw /\ e.o.sep = "uax"
  /\ LET j == ParaOfPos(prs, q - 1) IN
     j > 0 /\ LET base == prs[j][1] - 1
                  ws == IntendedSplit(ParaText(e, prs, j), e.o, ParaOpps(e, j))
              IN \E k \in 1..Len(ws) : ws[k].w > SubWidth(e.o) /\ ws[k].a + base < q /\ q < ws[k].e + base

\* positions q (exclusive slice ends) at which a slice may end in a space
SpaceOkSet(e) == LET prs == ParaRanges(e) IN {q \in 2..(Len(e.text) + 1) : e.text[q - 1] = SP /\ SpaceException(e, prs, q)}
\* hs: also accept a space-terminated slice when a hyphen was inserted after it (only used to *classify* a failure:
\* known finding K5, a custom split point 0 yields an empty piece whose hyphen lands behind the previous word's spaces)
TextWalkX(e, hs) ==
  Walk([t |-> e.text, mask |-> SkipMask(e.text, e.o.crlf), lines |-> e.lines,
        inds |-> [k \in 1..Len(e.lines) |-> IndentOfK(e.o, k)], hyins |-> CustomSplitter(e.o), strict |-> TRUE,
        spaceok |-> SpaceOkSet(e), hyspace |-> hs], 1, 1, <<>>)
TextWalk(e) == TextWalkX(e, FALSE)

C01okX(e, wk, hs) ==
  /\ wk.ok
  /\ \A k \in 1..Len(e.lines) :
       (Len(IndentOfK(e.o, k)) = 0 /\ ~wk.sl[k][3] /\ Len(e.lines[k].s) > 0) => e.lines[k].bp >= 1      \* borrowed from the caller's buffer
  /\ LET prs == ParaRanges(e) IN
     \A k \in 1..Len(e.lines) :
       LET p == wk.sl[k][1] q == wk.sl[k][2] IN
       (q > p /\ e.text[q - 1] = SP) => (SpaceException(e, prs, q) \/ (hs /\ wk.sl[k][3]))
C01ok(e, wk) == C01okX(e, wk, FALSE)
\* the failure is explained completely by hyphens inserted behind the spaces of the preceding word (splitter "half" only)
C01K5(e) == e.o.splitter = "half" /\ C01okX(e, TextWalkX(e, TRUE), TRUE)

(* ---------- C02 ---------- *)
RECURSIVE NonZeroVisAcc(_, _, _, _)
NonZeroVisAcc(s, p, i, acc) == IF i > Len(s) THEN acc ELSE NonZeroVisAcc(s, p, i + 1, IF VisAt(s, p, i) /\ W(s[i]) > 0 THEN acc + 1 ELSE acc)
NonZeroVis(s) == NonZeroVisAcc(s, Pre(s), 1, 0)

C02Line(e, wk, prs, k) ==
  LET ln == e.lines[k].s ind == IndentOfK(e.o, k) IN
  \/ DW(ln) <= e.o.width
  \/ /\ StartsWith(ln, ind)
     /\ LET r == SubSeq(ln, Len(ind) + 1, Len(ln)) IN
        IF e.o.bw THEN NonZeroVis(r) <= 1
        ELSE wk.ok /\ LET p == wk.sl[k][1] q == wk.sl[k][2] IN
             q > p => LET j == ParaOfPos(prs, p) IN
                      j > 0 /\ LET base == prs[j][1] - 1
                                   fs == IntendedSplit(ParaText(e, prs, j), e.o, ParaOpps(e, j))
                               IN \A f \in 2..Len(fs) : ~(p < fs[f].a + base /\ fs[f].a + base < q)
\* a line whose indent alone is wider than the width while everything after the indent has zero width (several
\* zero-width fragments without whitespace between them, e.g. "\n\n" under the CRLF line ending with the Unicode
\* separator): reported separately (known finding K2)
ZeroUnderWideIndent(e, k) ==
  LET ln == e.lines[k].s ind == IndentOfK(e.o, k) IN
  StartsWith(ln, ind) /\ DW(ind) > e.o.width /\ DW(SubSeq(ln, Len(ind) + 1, Len(ln))) = 0
C02ok(e, wk, special) ==
  LET prs == ParaRanges(e) IN \A k \in 1..Len(e.lines) : (ZeroUnderWideIndent(e, k) = special) => C02Line(e, wk, prs, k)

(* ---------- per-paragraph view (uses the line-count hint pl) ---------- *)
RECURSIVE PrefixSumsAcc(_, _, _)
PrefixSumsAcc(xs, k, acc) == IF k > Len(xs) THEN acc ELSE PrefixSumsAcc(xs, k + 1, Append(acc, acc[k] + xs[k]))
HintUsable(e) == e.pc /\ Len(e.pl) = Len(ParaRanges(e)) /\ SumSeq(e.pl) = Len(e.lines)

\* The lines of a paragraph as arrangements of given fragments fs (paragraph coordinates): line k must
\* be  indent \o text of fragments q..h \o ("-" iff fragment h carries a penalty).  Returns the set of
\* *all* arrangements that explain the lines (several only when empty-text fragments or a real '-' next
\* to an inserted one make the reading ambiguous); the verdicts are existential over this set.
Rendered(P, fs, q, h) == SubSeq(P, fs[q].a, fs[h].e - 1) \o (IF fs[h].pen > 0 THEN <<HY>> ELSE <<>>)
RECURSIVE ArrSet(_, _, _, _, _, _)
ArrSet(P, fs, rs, k, q, acc) ==
  IF k > Len(rs) THEN (IF q = Len(fs) + 1 THEN {acc} ELSE {})
  ELSE IF q > Len(fs) THEN {}
  ELSE UNION { ArrSet(P, fs, rs, k + 1, h + 1, Append(acc, <<q, h>>)) :
                 h \in {x \in q..Len(fs) : Rendered(P, fs, q, x) = rs[k]} }
\* remainders of lines first..first+n-1 after their indents; <<>> (no lines) if some indent is missing
ParaRemainders(e, first, n) ==
  IF \A k \in 1..n : StartsWith(e.lines[first + k - 1].s, IndentOfK(e.o, first + k - 1))
  THEN [k \in 1..n |-> LET ln == e.lines[first + k - 1].s ind == IndentOfK(e.o, first + k - 1) IN SubSeq(ln, Len(ind) + 1, Len(ln))]
  ELSE <<>>
ArrangementsOf(P, fs, rs) ==
  IF Len(rs) = 0 THEN {}
  ELSE IF Len(fs) = 0 THEN (IF rs = << <<>> >> THEN { << <<1, 0>> >> } ELSE {})
  ELSE ArrSet(P, fs, rs, 1, 1, <<>>)

\* widths against which the lines of a paragraph are actually rendered: its first line carries the initial
\* indent iff it is the very first line of the result
ActualWidths(o, first) == << SatSub(o.width, DW(IndentOfK(o, first))), SubWidth(o) >>

\* TRUE iff the lines of paragraph j are a greedy arrangement of the intended fragments (with or without
\* the zero-width sentinel in front)
ParaGreedy(e, P, opps, first, n) ==
  LET rs == ParaRemainders(e, first, n)
      f0 == IntendedFrags(P, e.o, opps)
      f1 == <<Sentinel>> \o f0
      lws == ActualWidths(e.o, first)
      good(fs) == \E arr \in ArrangementsOf(P, fs, rs) : IsGreedy(Frags(fs), lws, arr)
  IN good(f0) \/ good(f1)

C07text(e) ==
  LET prs == ParaRanges(e) starts == PrefixSumsAcc(e.pl, 1, <<0>>) IN
  \A j \in 1..Len(prs) : ParaGreedy(e, ParaText(e, prs, j), ParaOpps(e, j), starts[j] + 1, e.pl[j])


\* TRUE iff the lines of paragraph j are a minimum-cost arrangement of the intended fragments; vacuously
\* TRUE when the comparison cannot be done exactly in 32-bit integers or the penalty precondition fails
ParaOptimal(e, P, opps, first, n) ==
  LET rs == ParaRemainders(e, first, n)
      f0 == IntendedFrags(P, e.o, opps)
      f1 == <<Sentinel>> \o f0
      lws == ActualWidths(e.o, first)
      good(fs) == LET fr == Frags(fs) IN
                  \E arr \in ArrangementsOf(P, fs, rs) : Len(fs) = 0 \/ CostOfArr(fr, lws, e.o.pen, arr) = MinCostDP(fr, lws, e.o.pen)
  IN IF ~(CostExact(Frags(f1), lws, e.o.pen) /\ PenaltyOk(Frags(f0))) THEN TRUE
     ELSE good(f0) \/ good(f1)

\* conformance (drift) counterpart: the fragment list of the operational model, i.e. with the zero-width sentinel exactly
\* where the code inserts it (break_words and a non-empty initial indent).  The verdict above accepts an optimum over the
\* paragraph's own fragments as well (the statement of C03 does not speak of the sentinel); a change of the sentinel rule
\* shows up here.
ParaOptimalModel(e, P, opps, first, n) ==
  LET rs == ParaRemainders(e, first, n)
      f0 == IntendedFrags(P, e.o, opps)
      fm == IF e.o.bw /\ Len(e.o.ii) # 0 THEN <<Sentinel>> \o f0 ELSE f0
      lws == ActualWidths(e.o, first)
      fr == Frags(fm)
  IN IF ~(CostExact(Frags(<<Sentinel>> \o f0), lws, e.o.pen) /\ PenaltyOk(Frags(f0))) \/ ByteLen(P) < e.o.width THEN TRUE
     ELSE \E arr \in ArrangementsOf(P, fm, rs) : Len(fm) = 0 \/ CostOfArr(fr, lws, e.o.pen, arr) = MinCostDP(fr, lws, e.o.pen)
C03model(e) ==
  LET prs == ParaRanges(e) starts == PrefixSumsAcc(e.pl, 1, <<0>>) IN
  \A j \in 1..Len(prs) : ParaOptimalModel(e, ParaText(e, prs, j), ParaOpps(e, j), starts[j] + 1, e.pl[j])

C03text(e) ==
  LET prs == ParaRanges(e) starts == PrefixSumsAcc(e.pl, 1, <<0>>) IN
  \A j \in 1..Len(prs) : ParaOptimal(e, ParaText(e, prs, j), ParaOpps(e, j), starts[j] + 1, e.pl[j])

(* ---------- C05 (i): a paragraph that fits comes back as one unchanged line ---------- *)
\* an escape sequence with a space inside is split by the ASCII separator (and may be by UAX#14): the
\* per-word widths then no longer add up to the paragraph's display width.  Reported separately.
RECURSIVE SpaceInSeqFrom(_, _, _)
SpaceInSeqFrom(s, p, i) == IF i > Len(s) THEN FALSE ELSE ((p[i] # "T" /\ s[i] = SP) \/ SpaceInSeqFrom(s, p, i + 1))
SpaceInsideSeq(s) == SpaceInSeqFrom(s, Pre(s), 1)

\* likewise a '-' inside a sequence (e.g. the URL of an OSC 8 hyperlink) is a split point for the hyphen splitter,
\* which then cuts the sequence in two: the halves are measured separately.  Reported separately (K3).
HyphenInsideSeq(s) == LET p == Pre(s) IN \E i \in 1..Len(s) : p[i] # "T" /\ s[i] = HY
SeqClass(P, o) == IF SpaceInsideSeq(P) THEN "space" ELSE IF o.splitter = "hyphen" /\ HyphenInsideSeq(P) THEN "hyphen" ELSE "plain"

C05Applies(o) == o.splitter \in {"none", "hyphen"} /\ (o.alg = "ff" \/ o.pen = DefaultPen)
C05Para(e, P, first, n) ==
  LET ind == IndentOfK(e.o, first) IN
  (DW(P) + DW(ind) <= e.o.width) => (n = 1 /\ e.lines[first].s = ind \o TrimEndSpaces(P))
C05i(e, cls) ==
  LET prs == ParaRanges(e) starts == PrefixSumsAcc(e.pl, 1, <<0>>) IN
  \A j \in 1..Len(prs) : LET P == ParaText(e, prs, j) IN
     (SeqClass(P, e.o) = cls) => C05Para(e, P, starts[j] + 1, e.pl[j])

(* ---------- the event ---------- *)
WrapOppss(e) == [j \in 1..Len(e.paras) |-> ToSet(e.paras[j].opps)]
LineStringsOf(e) == [k \in 1..Len(e.lines) |-> e.lines[k].s]
TextWellFormed(e) == WellFormed(e.text) /\ WellFormed(e.o.ii) /\ WellFormed(e.o.si)

Judge_wrap(e) ==
  LET wk == TextWalk(e) usable == HintUsable(e) IN
  On("C04", << Chk("C04", "VERDICT", "wrap panicked", Ok(e)) >>) \o
  (IF ~Ok(e) THEN << Chk(e.tag, "VERDICT", "wrap panicked", e.tag \notin Sel) >>
   ELSE IF e.o.sep = "custom"
   THEN \* a custom word separator is outside the quantifier of every listed property: conformance (drift) only
        (IF e.o.alg = "ff"
         THEN << Chk("C01", "DRIFT", "wrap with a custom separator differs from the operational model",
                     LineStringsOf(e) = LineStrings(WrapFF(e.text, e.o, WrapOppss(e)))) >>
         ELSE <<>>)
   ELSE
  << Chk("TOOL", "TOOL", "paragraph oracle data inconsistent with the specification's split / strip", OracleConsistent(e)) >> \o
  On("C08", << Chk("C08", "VERDICT", "a line does not start with the configured indent", C08ok(e)) >>) \o
  On("C01", IF C01ok(e, wk) \/ ~C01K5(e)
            THEN << Chk("C01", "VERDICT", "lines are not indent + in-order slices of the input (or a needlessly owned / space-terminated slice)", C01ok(e, wk)) >>
            ELSE << Chk("C01", "VERDICT", "a slice ends in a space (custom split point 0: the hyphen of an empty first piece is inserted behind the previous word's spaces)", FALSE) >>) \o
  On("C02", IF e.o.alg = "ff" /\ TextWellFormed(e) /\ ~CustomSplitter(e.o)
            THEN << Chk("C02", "VERDICT", "a first-fit line is wider than the width although it is not a single unbreakable fragment", C02ok(e, wk, FALSE)),
                    Chk("C02", "VERDICT", "a first-fit line is wider than the width although it is not a single unbreakable fragment (indent alone wider than the width, zero-width fragments after it)", C02ok(e, wk, TRUE)) >>
            ELSE <<>>) \o
  On("C07", IF e.o.alg = "ff" /\ usable
            THEN << Chk("C07", "VERDICT", "first-fit lines are not the greedy arrangement of the paragraph's fragments", C07text(e)) >>
            ELSE <<>>) \o
  On("C03", IF e.o.alg = "opt" /\ usable /\ ~CustomSplitter(e.o)
            THEN << Chk("C03", "VERDICT", "optimal-fit lines are not a minimum-cost arrangement of the paragraph's fragments", C03text(e)) >>
            ELSE <<>>) \o
  On("C05", IF usable /\ C05Applies(e.o)
            THEN << Chk("C05", "VERDICT", "a paragraph that fits was not returned as one unchanged line", C05i(e, "plain")),
                    Chk("C05", "VERDICT", "a paragraph that fits was not returned as one unchanged line (escape sequence with an embedded space)", C05i(e, "space")),
                    Chk("C05", "VERDICT", "a paragraph that fits was not returned as one unchanged line (escape sequence containing a hyphen, hyphen splitter)", C05i(e, "hyphen")) >>
            ELSE <<>>) \o
  (IF e.o.alg = "ff"
   THEN << Chk(e.tag, "DRIFT", "wrap (first-fit) differs from the operational model", LineStringsOf(e) = LineStrings(WrapFF(e.text, e.o, WrapOppss(e)))) >>
   ELSE IF usable /\ ~CustomSplitter(e.o) /\ "C03" \in Sel
   THEN << Chk("C03", "DRIFT", "wrap (optimal-fit) is not a minimum-cost arrangement of the operational model's fragment list (sentinel where the code inserts it)", C03model(e)) >>
   ELSE <<>>))

Judge_fill(e) ==
  On("C04", << Chk("C04", "VERDICT", "fill panicked", Ok(e)) >>) \o
  (IF ~Ok(e) THEN << Chk(e.tag, "VERDICT", "fill panicked", e.tag \notin Sel) >> ELSE
  << Chk("TOOL", "TOOL", "paragraph oracle data inconsistent with the specification's split / strip", OracleConsistent(e)) >> \o
  On("C09", << Chk("C09", "VERDICT", "fill is not wrap's lines joined by the line ending", e.res = Join(e.wlines, Ending(e.o))) >>) \o
  On("C01", << Chk("C01", "VERDICT", "fill is not wrap's lines joined by the line ending", e.res = Join(e.wlines, Ending(e.o))) >>) \o
  (IF e.o.alg = "ff"
   THEN << Chk(e.tag, "DRIFT", "fill (first-fit) differs from the operational model", e.res = FillFF(e.text, e.o, WrapOppss(e))) >>
   ELSE <<>>))
=============================================================================
