SPECIFICATION Spec
CONSTANTS
  W <- MCW
  IsAlnum <- MCAlnum
  IsWs <- MCWs
  Dev = {}
  Sel = {"C01", "C02", "C03", "C05", "C07", "C08"}
  Alphabet = {97, 32, 45, 173, 10}
  MaxLen = 4
  Widths = {0, 1, 2, 3}
  IndentPairs <- MCIndentPairsSmall
  BWs = {TRUE, FALSE}
  Seps = {"uax"}
  Splitters = {"none", "hyphen"}
  Algs = {"ff", "opt"}
  Crlfs = {FALSE}
INVARIANTS NoFault EmitInv OrderedInv FFInv FragsContiguous PropWrap Emit
CHECK_DEADLOCK FALSE
