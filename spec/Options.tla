------------------------------- MODULE Options -------------------------------
(***************************************************************************)
(* The Options builder (options.rs) as a state machine: the state is the   *)
(* option record, every builder method is an action that changes exactly   *)
(* its own field.  Defaults depend on the cargo feature set (`full`).      *)
(* Not one of the listed properties; part of the specification's coverage  *)
(* of the crate's behaviour (DESIGN section 11), bound to the code by      *)
(* `optseq` events: a sequence of builder calls and the resulting fields,  *)
(* plus the From<&Options> and From<usize> conversions.                    *)
(***************************************************************************)
EXTENDS OptimalFit

DefaultOpts(w, full) ==
  [width |-> w, ii |-> <<>>, si |-> <<>>, bw |-> TRUE, sep |-> (IF full THEN "uax" ELSE "ascii"), splitter |-> "hyphen",
   alg |-> (IF full THEN "opt" ELSE "ff"), pen |-> DefaultPen, crlf |-> FALSE]

\* op = <<name, value>>
ApplyOp(o, op, full) ==
  CASE op[1] = "width" -> [o EXCEPT !.width = op[2]]
    [] op[1] = "ii" -> [o EXCEPT !.ii = op[2]]
    [] op[1] = "si" -> [o EXCEPT !.si = op[2]]
    [] op[1] = "bw" -> [o EXCEPT !.bw = op[2]]
    [] op[1] = "crlf" -> [o EXCEPT !.crlf = op[2]]
    [] op[1] = "sep" -> (IF op[2] = "uax" /\ ~full THEN o ELSE [o EXCEPT !.sep = op[2]])
    [] op[1] = "splitter" -> [o EXCEPT !.splitter = op[2]]
    [] op[1] = "alg" -> (IF op[2] = "opt" /\ ~full THEN o ELSE [o EXCEPT !.alg = op[2], !.pen = DefaultPen])
    [] OTHER -> o
RECURSIVE ApplyAll(_, _, _, _)
ApplyAll(o, ops, k, full) == IF k > Len(ops) THEN o ELSE ApplyAll(ApplyOp(o, ops[k], full), ops, k + 1, full)
=============================================================================
