SPECIFICATION TraceSpec
CONSTANTS
  W <- TraceW
  IsAlnum <- TraceIsAlnum
  IsWs <- TraceIsWs
  Dev = {}
  Sel = {}
  MaxN = 0
  Ws = {}
  Wss = {}
  Pws = {}
  WidthLists = {}
  MaxLW = 0
  PenSets = {}
POSTCONDITION Accepted
CHECK_DEADLOCK FALSE
