SPECIFICATION Spec
CONSTANTS
  W <- MCW
  IsAlnum <- MCAlnum
  IsWs <- MCWs
  Dev = {}
  Sel = {"C04", "C20"}
  Alphabet = {97, 32, 65320}
  MaxLen = 5
  ColCounts = {0, 1, 2, 3}
  Widths = {0, 1, 2, 3, 4, 5, 6, 8, 9}
  Gaps <- MCGaps
  BWs = {TRUE, FALSE}
INVARIANTS OnlyDocumentedFault PropColumns Emit
CHECK_DEADLOCK FALSE
