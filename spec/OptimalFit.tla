----------------------------- MODULE OptimalFit ------------------------------
(***************************************************************************)
(* wrap_optimal_fit (wrap_algorithms/optimal_fit.rs): the documented cost  *)
(* model on integers, the minimum over all arrangements computed twice     *)
(* (exhaustively over the 2^(n-1) compositions, and by dynamic             *)
(* programming), and the cost of a given arrangement.                      *)
(*                                                                         *)
(* pen = [nline, over, frac, short, hyph]  (optimal_fit.rs Penalties)      *)
(* A line holding fragments i+1..j (0 <= i < j <= n) that is line number   *)
(* k (0-based) is measured against LineW(lws, k).                          *)
(* All arithmetic is exact integer arithmetic; the harness only tags an    *)
(* event `exact` when every f64 intermediate is an integer below 2^30, in  *)
(* which case the Rust f64 computation and this one agree exactly.         *)
(***************************************************************************)
EXTENDS FirstFit

DefaultPen == [nline |-> 1000, over |-> 2500, frac |-> 4, short |-> 25, hyph |-> 25]

RECURSIVE PreSums(_, _, _)
PreSums(fs, k, acc) == IF k > Len(fs) THEN acc ELSE PreSums(fs, k + 1, Append(acc, acc[k] + fs[k].w + fs[k].ws))
\* Pre[k+1] = total width+whitespace of the first k fragments

\* cost of the line holding fragments i+1..j of n, measured against line width lw
LineCost(fs, pre, n, i, j, lw, pen) ==
  LET target == Max2(lw, 1)
      width == pre[j + 1] - pre[i + 1] - fs[j].ws + fs[j].pw
      c1 == IF width > target THEN (width - target) * pen.over
            ELSE IF j < n THEN (target - width) * (target - width)
            ELSE IF i + 1 = j /\ (pen.frac = 0 \/ width * pen.frac < target) THEN pen.short
            ELSE 0
      c2 == IF fs[j].pw > 0 THEN pen.hyph ELSE 0
  IN pen.nline + c1 + c2

\* the same with one classic mistake switched on by a named deviation (used by the step machine of
\* MC_Optimal only; the declarative minimum above is never deviated)
LineCostOp(fs, pre, n, i, j, lw, pen) ==
  LET target == Max2(lw, 1)
      width == (IF HasDev("opt_presum_off_by_one") /\ i > 0 THEN pre[j + 1] - pre[i] ELSE pre[j + 1] - pre[i + 1]) - fs[j].ws + fs[j].pw
      c1 == IF width > target THEN (width - target) * pen.over
            ELSE IF j < n \/ HasDev("opt_last_line_not_exempt")
                 THEN (IF HasDev("opt_linear_gap") THEN (target - width) ELSE (target - width) * (target - width))
            ELSE IF i + 1 = j /\ (pen.frac = 0 \/ width * pen.frac < target) THEN pen.short
            ELSE 0
      c2 == IF fs[j].pw > 0 /\ ~HasDev("opt_no_hyphen_penalty") THEN pen.hyph ELSE 0
  IN pen.nline + c1 + c2

\* cost of a whole arrangement (sequence of <<first,last>>), line k measured against the k-th width
RECURSIVE ArrCostAcc(_, _, _, _, _, _, _)
ArrCostAcc(fs, pre, lws, pen, arr, k, acc) ==
  IF k > Len(arr) THEN acc
  ELSE ArrCostAcc(fs, pre, lws, pen, arr, k + 1,
                  acc + LineCost(fs, pre, Len(fs), arr[k][1] - 1, arr[k][2], LineW(lws, k - 1), pen))
CostOfArr(fs, lws, pen, arr) == IF Len(fs) = 0 THEN 0 ELSE ArrCostAcc(fs, PreSums(fs, 1, <<0>>), lws, pen, arr, 1, 0)

(* ---------- exhaustive minimum: all compositions of n (n <= ~10) ---------- *)
\* a composition is given by the set of break positions B \subseteq 1..n-1 (break after fragment b)
ArrOfBreaks(n, B) ==
  LET bs == SetToSortSeq(B, <) m == Len(bs)
  IN [k \in 1..(m + 1) |-> << (IF k = 1 THEN 1 ELSE bs[k - 1] + 1), (IF k <= m THEN bs[k] ELSE n) >>]
AllArrangements(n) == IF n = 0 THEN { << <<1, 0>> >> } ELSE {ArrOfBreaks(n, B) : B \in SUBSET (1..(n - 1))}
MinCostX(fs, lws, pen) == IF Len(fs) = 0 THEN 0 ELSE Min({CostOfArr(fs, lws, pen, arr) : arr \in AllArrangements(Len(fs))})

(* ---------- dynamic programming, valid for at most two line widths ---------- *)
\* best[i+1] = minimum cost of arranging the first i fragments.  A line that starts at fragment 1
\* is line 0, any other line has number >= 1 and therefore (list of length <= 2) the last width.
RECURSIVE DP(_, _, _, _, _, _, _)
DP(fs, pre, n, lws, pen, j, best) ==
  IF j > n THEN best
  ELSE DP(fs, pre, n, lws, pen, j + 1,
          Append(best, Min({best[i + 1] + LineCost(fs, pre, n, i, j, (IF i = 0 THEN LineW(lws, 0) ELSE LineW(lws, 1)), pen) : i \in 0..(j - 1)})))
MinCostDP(fs, lws, pen) ==
  LET n == Len(fs) IN IF n = 0 THEN 0 ELSE DP(fs, PreSums(fs, 1, <<0>>), n, lws, pen, 1, <<0>>)[n + 1]

\* the precondition of C03 on fragments: a penalty width never exceeds the width of the next fragment
PenaltyOk(fs) == \A k \in 1..(Len(fs) - 1) : fs[k].pw <= fs[k + 1].w

\* Can every intermediate value of the cost computation be represented exactly in TLC's 32-bit
\* integers (and therefore, a fortiori, in f64)?  Guarded so that the test itself cannot overflow.
CostExact(fs, lws, pen) ==
  LET n == Len(fs)
      tot == PreSums(fs, 1, <<0>>)[n + 1] + 1
      mw == Max2(1, Max({0} \cup {lws[k] : k \in 1..Len(lws)}))
      small(x) == x >= 0 /\ x <= 10000
  IN /\ small(pen.nline) /\ small(pen.over) /\ small(pen.frac) /\ small(pen.short) /\ small(pen.hyph)
     /\ small(tot) /\ small(mw) /\ \A k \in 1..n : small(fs[k].pw)
     /\ pen.nline + pen.short + pen.hyph + tot * pen.over + mw * mw <= 1000000000 \div Max2(n, 1)
=============================================================================
