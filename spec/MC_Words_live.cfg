SPECIFICATION Spec
CONSTANTS
  W <- MCW
  IsAlnum <- MCAlnum
  IsWs <- MCWs
  Dev = {}
  Sel = {"C11"}
  Alphabet = {97, 32, 45, 173, 27, 91, 109}
  MaxLen = 3
PROPERTY Terminates
CHECK_DEADLOCK FALSE
