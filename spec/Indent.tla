------------------------------- MODULE Indent --------------------------------
(***************************************************************************)
(* indent and dedent (indentation.rs).                                     *)
(*  - declarative definitions exactly as properties C18 / C19 state them   *)
(*  - operational transcriptions of the Rust loops (three passes of        *)
(*    dedent; the split_terminator loop of indent)                         *)
(***************************************************************************)
EXTENDS StdStr

NonBlank(line) == \E i \in 1..Len(line) : ~IsWs(line[i])

(* ---------- C19: indent ---------- *)
IndentLine(line, p) == IF NonBlank(line) THEN p \o line ELSE TrimEndWs(p) \o line
IndentDecl(s, p) ==
  LET ls == SplitTerminator(s, LF)
      out == [k \in 1..Len(ls) |-> IndentLine(ls[k], p)]
  IN Join(out, <<LF>>) \o (IF Len(s) > 0 /\ s[Len(s)] = LF THEN <<LF>> ELSE <<>>)

\* operational: the loop of indentation.rs:52-75
RECURSIVE IndentLoop(_, _, _, _, _)
IndentLoop(ls, p, tp, k, acc) ==
  IF k > Len(ls) THEN acc
  ELSE IndentLoop(ls, p, tp, k + 1,
                  (IF k > 1 THEN Append(acc, LF) ELSE acc) \o (IF Len(TrimWs(ls[k])) = 0 THEN tp ELSE p) \o ls[k])
IndentOp(s, p) ==
  LET r == IndentLoop(SplitTerminator(s, LF), p, TrimEndWs(p), 1, <<>>)
  IN IF EndsWith(s, <<LF>>) THEN Append(r, LF) ELSE r

CountChar(s, c) == Cardinality({i \in 1..Len(s) : s[i] = c})

(* ---------- C18: dedent ---------- *)
\* m = the longest string of whitespace characters that is a prefix of every non-blank line
RECURSIVE MarginAcc(_, _, _)
MarginAcc(ls, k, m) ==   \* m = candidate so far (a string), or <<-1>> = none yet
  IF k > Len(ls) THEN m
  ELSE IF ~NonBlank(ls[k]) THEN MarginAcc(ls, k + 1, m)
  ELSE LET lead == SubSeq(ls[k], 1, LeadWs(ls[k])) IN
       MarginAcc(ls, k + 1, IF m = <<-1>> THEN lead ELSE SubSeq(m, 1, LcpLen(m, lead, 1)))
Margin(ls) == LET m == MarginAcc(ls, 1, <<-1>>) IN IF m = <<-1>> THEN <<>> ELSE m

DedentDecl(s) ==
  LET ls == Lines(s)
      m == Margin(ls)
      out == [k \in 1..Len(ls) |-> IF NonBlank(ls[k]) THEN SubSeq(ls[k], Len(m) + 1, Len(ls[k])) ELSE <<>>]
  IN Join(out, <<LF>>) \o (IF Len(ls) > 0 /\ EndsWith(s, <<LF>>) THEN <<LF>> ELSE <<>>)

\* operational: the three passes of indentation.rs:95-150
\* pass 1: first line with a non-whitespace character seeds the prefix; returns <<prefix, index of that line>> (0 if none)
RECURSIVE DedentSeed(_, _)
DedentSeed(ls, k) ==
  IF k > Len(ls) THEN << <<>>, Len(ls) + 1 >>
  ELSE LET wi == LeadWs(ls[k]) IN IF wi < Len(ls[k]) THEN << SubSeq(ls[k], 1, wi), k >> ELSE DedentSeed(ls, k + 1)
\* pass 2: narrowing loop over the remaining lines
RECURSIVE DedentNarrow(_, _, _)
DedentNarrow(ls, k, prefix) ==
  IF k > Len(ls) THEN prefix
  ELSE LET line == ls[k]
           \* first index where line and prefix differ (zip stops at the shorter one); Len(line) if none
           d == LcpLen(line, prefix, 1)
           wi == IF d < Len(line) /\ d < Len(prefix) THEN d ELSE Len(line)
           blank == ~NonBlank(line)
       IN IF HasDev("pinned_blank_line_narrows_margin")
          THEN DedentNarrow(ls, k + 1, IF wi < Len(line) /\ wi < Len(prefix) THEN SubSeq(line, 1, wi) ELSE prefix)
          ELSE DedentNarrow(ls, k + 1, IF ~blank /\ wi < Len(line) /\ wi < Len(prefix) THEN SubSeq(line, 1, wi) ELSE prefix)
DedentOp(s) ==
  LET ls == Lines(s)
      seed == DedentSeed(ls, 1)
      prefix == DedentNarrow(ls, seed[2] + 1, seed[1])
      out == [k \in 1..Len(ls) |-> IF StartsWith(ls[k], prefix) /\ NonBlank(ls[k]) THEN SubSeq(ls[k], Len(prefix) + 1, Len(ls[k])) ELSE <<>>]
      r == ConcatAll([k \in 1..Len(ls) |-> Append(out[k], LF)])
  IN IF EndsWith(r, <<LF>>) /\ ~EndsWith(s, <<LF>>) THEN SubSeq(r, 1, Len(r) - 1) ELSE r

\* CR occurs only as a single CR directly before LF (or not at all): the inputs on which the
\* idempotence consequence of C18 is judged (DESIGN section 5, C18)
CrOnlyInCrlf(s) == \A i \in 1..Len(s) : s[i] = CR => (i < Len(s) /\ s[i + 1] = LF /\ (i = 1 \/ s[i - 1] # CR))
=============================================================================
