-------------------------------- MODULE Wrap ---------------------------------
(***************************************************************************)
(* wrap() (wrap.rs:180-292) and fill() (fill.rs) as operators.             *)
(*                                                                         *)
(* Options record o:                                                       *)
(*   width    natural (usize through the abstraction of DESIGN 3.3)        *)
(*   ii, si   initial / subsequent indent (strings)                        *)
(*   bw       break_words                                                  *)
(*   sep      "ascii" | "uax"                                              *)
(*   splitter "none" | "hyphen" | "every2" | "every3" | "half"             *)
(*   alg      "ff" | "opt"          pen  penalties record (for "opt")      *)
(*   crlf     line ending is CRLF                                          *)
(* The UAX #14 opportunities of each paragraph are an input: oppss[k] is   *)
(* the set for paragraph k (ignored for the ASCII separator).              *)
(*                                                                         *)
(* Output lines are records                                                *)
(*   [s    the line as a string,                                           *)
(*    ind  "ii" | "si"    which indent it carries,                         *)
(*    a, e slice s[a..e) of the *whole text* it renders (1-based),         *)
(*    hy   TRUE iff a penalty hyphen was appended,                         *)
(*    bp   Cow kind: position of a line borrowed from the caller's buffer, *)
(*         0 = owned, -1 = borrowed from elsewhere (static "")]            *)
(***************************************************************************)
EXTENDS SplitBreak, OptimalFit

Frag(wd) == [w |-> wd.w, ws |-> wd.b - wd.e, pw |-> wd.pen]
Frags(ws) == [k \in 1..Len(ws) |-> Frag(ws[k])]
Sentinel == [a |-> 1, e |-> 1, b |-> 1, pen |-> 0, w |-> 0]     \* Word::from("") put in front (wrap.rs:238)

\* wrap_single_line fast path condition (wrap.rs:205)
FastPath(line, o, nlines) ==
  LET indent == IF nlines = 0 THEN o.ii ELSE o.si
  IN IF HasDev("shortcut_ignores_indent") THEN ByteLen(line) < o.width
     ELSE IF HasDev("shortcut_char_count") THEN Len(line) < o.width /\ Len(indent) = 0
     ELSE ByteLen(line) < o.width /\ Len(indent) = 0

\* the two target widths handed to the wrap algorithm for a paragraph that starts when `nlines`
\* lines have been emitted already (wrap.rs:220-226)
ParaLineWidths(o, nlines) ==
  LET iw == SatSub(o.width, DW(o.ii)) sw == SatSub(o.width, DW(o.si))
  IN IF nlines = 0 \/ HasDev("pinned_later_paragraph_uses_initial_width") THEN <<iw, sw>> ELSE <<sw, sw>>

\* fragments handed to the wrap algorithm (wrap.rs:228-243)
ParaWords(line, o, opps) ==
  LET w1 == FindWords(line, o.sep, opps)
      w2 == SplitWords(line, w1, o.splitter)
      sw == SatSub(o.width, DW(o.si))
  IN IF o.bw THEN LET b == BreakWords(line, w2, sw) IN (IF Len(o.ii) # 0 THEN <<Sentinel>> \o b ELSE b)
     ELSE w2

\* the same list without the sentinel
ParaWordsNoSentinel(line, o, opps) ==
  LET w2 == SplitWords(line, FindWords(line, o.sep, opps), o.splitter)
  IN IF o.bw THEN BreakWords(line, w2, SatSub(o.width, DW(o.si))) ELSE w2

\* line re-assembly (wrap.rs:247-291) for one paragraph occupying text positions base+1.. ;
\* nlines = number of lines emitted before this paragraph
RenderPara(line, base, o, nlines, ws, arr) ==
  [k \in 1..Len(arr) |->
     LET lo == arr[k][1] hi == arr[k][2]
         first == nlines + k - 1 = 0
         indent == IF first THEN o.ii ELSE o.si
     IN IF hi < lo
        THEN (IF HasDev("pinned_empty_paragraph_no_indent")
              THEN [s |-> <<>>, ind |-> (IF first THEN "ii" ELSE "si"), a |-> base + 1, e |-> base + 1, hy |-> FALSE, bp |-> -1]
              ELSE [s |-> indent, ind |-> (IF first THEN "ii" ELSE "si"), a |-> base + 1, e |-> base + 1, hy |-> FALSE,
                    bp |-> (IF Len(indent) = 0 THEN -1 ELSE 0)])
        ELSE [s |-> indent \o SubSeq(line, ws[lo].a, ws[hi].e - 1) \o (IF ws[hi].pen > 0 THEN <<HY>> ELSE <<>>),
              ind |-> (IF first THEN "ii" ELSE "si"),
              a |-> base + ws[lo].a, e |-> base + ws[hi].e, hy |-> ws[hi].pen > 0,
              bp |-> (IF Len(indent) = 0 /\ ws[hi].pen = 0 THEN base + ws[lo].a ELSE 0)]]

FastLine(line, base, nlines) ==
  LET t == TrimEndSpaces(line)
  IN << [s |-> t, ind |-> (IF nlines = 0 THEN "ii" ELSE "si"), a |-> base + 1, e |-> base + 1 + Len(t), hy |-> FALSE, bp |-> base + 1] >>

\* one paragraph with the first-fit algorithm (deterministic); nofast = TRUE forces the general path
WrapParaFF(line, base, o, opps, nlines, nofast) ==
  IF ~nofast /\ FastPath(line, o, nlines) THEN FastLine(line, base, nlines)
  ELSE LET ws == ParaWords(line, o, opps)
       IN RenderPara(line, base, o, nlines, ws, FirstFit(Frags(ws), ParaLineWidths(o, nlines)))

RECURSIVE WrapFFAcc(_, _, _, _, _, _, _)
WrapFFAcc(s, ps, o, oppss, k, acc, nofast) ==
  IF k > Len(ps) THEN acc
  ELSE WrapFFAcc(s, ps, o, oppss, k + 1,
                 acc \o WrapParaFF(SubSeq(s, ps[k][1], ps[k][2]), ps[k][1] - 1, o,
                                   (IF o.sep \in {"uax", "custom"} THEN oppss[k] ELSE {}), Len(acc), nofast), nofast)
\* wrap(text, options) with WrapAlgorithm::FirstFit
WrapFF(s, o, oppss) == WrapFFAcc(s, SplitEndingRanges(s, o.crlf), o, oppss, 1, <<>>, FALSE)
\* the same through the general path only (what cfg(fuzzing) wrap_single_line_slow_path computes)
WrapSlowFF(s, o, oppss) == WrapFFAcc(s, SplitEndingRanges(s, o.crlf), o, oppss, 1, <<>>, TRUE)

LineStrings(ls) == [k \in 1..Len(ls) |-> ls[k].s]
Ending(o) == IF o.crlf THEN <<CR, LF>> ELSE <<LF>>

\* fill shortcut (fill.rs:42)
FillFast(s, o) == ByteLen(s) < o.width /\ ~Contains(s, LF) /\ Len(o.ii) = 0
FillFF(s, o, oppss) == IF FillFast(s, o) THEN TrimEndSpaces(s) ELSE Join(LineStrings(WrapFF(s, o, oppss)), Ending(o))
FillSlowFF(s, o, oppss) == Join(LineStrings(WrapFF(s, o, oppss)), Ending(o))

(* ---------- fill_inplace (fill.rs:120-153) ---------- *)
\* positions (1-based, in the whole text) at which a ' ' is overwritten with '\n': for every line of
\* the first-fit arrangement of a paragraph except the last, the final character of the whitespace
\* of the line's last word
InplaceParaIdx(line, base, width) ==
  LET ws == AsciiWordsOp(line)
      arr == FirstFit(Frags(ws), <<width>>)
  IN {base + ws[arr[k][2]].b - 1 : k \in 1..(Len(arr) - 1)}
RECURSIVE InplaceIdxAcc(_, _, _, _, _)
InplaceIdxAcc(s, ps, width, k, acc) ==
  IF k > Len(ps) THEN acc
  ELSE InplaceIdxAcc(s, ps, width, k + 1, acc \cup InplaceParaIdx(SubSeq(s, ps[k][1], ps[k][2]), ps[k][1] - 1, width))
InplaceIdx(s, width) == InplaceIdxAcc(s, SplitCharRanges(s, LF), width, 1, {})
FillInplaceOp(s, width) == LET idx == InplaceIdx(s, width) IN [i \in 1..Len(s) |-> IF i \in idx THEN LF ELSE s[i]]
\* the options fill_inplace documents: width, break_words off, LF, ASCII separator, first-fit, no hyphenation
InplaceOpts(width) == [width |-> width, ii |-> <<>>, si |-> <<>>, bw |-> FALSE, sep |-> "ascii", splitter |-> "none",
                       alg |-> "ff", pen |-> DefaultPen, crlf |-> FALSE]
=============================================================================
