------------------------------- MODULE PropsRel ------------------------------
(***************************************************************************)
(* Verdict predicates for fragment-level events (C03, C06, C07), for       *)
(* composite events that record several related calls (C05, C08, C09, C13, *)
(* C14, C15, C16, C17, C18, C20) and for indent / dedent / unfill events.  *)
(* Every composite event carries the complete arguments of every call it   *)
(* describes; the argument relation claimed by the harness is re-checked   *)
(* here (TOOL) before the result relation is judged (VERDICT).             *)
(***************************************************************************)
EXTENDS PropsWrap, Indent, Refill, Columns, Options

(* ------------------------------------------------------------------------- *)
(* fragment-level events: wrap_first_fit / wrap_optimal_fit                  *)
(* ------------------------------------------------------------------------- *)
FragsOf(e) == [k \in 1..Len(e.fs) |-> [w |-> e.fs[k][1], ws |-> e.fs[k][2], pw |-> e.fs[k][3]]]
ArrOf(e) == [k \in 1..Len(e.res) |-> <<e.res[k][1], e.res[k][2]>>]
\* pure shape, from slice pointers and lengths: shape[k] = <<element offset, length>>
ShapeOk(shape, n) ==
  IF n = 0 THEN Len(shape) = 1 /\ shape[1][2] = 0
  ELSE /\ Len(shape) >= 1 /\ shape[1][1] = 0
       /\ \A k \in 1..Len(shape) : shape[k][2] >= 1
       /\ \A k \in 1..(Len(shape) - 1) : shape[k + 1][1] = shape[k][1] + shape[k][2]
       /\ shape[Len(shape)][1] + shape[Len(shape)][2] = n

Judge_frag(e) ==
  On("C04", << Chk("C04", "VERDICT", "line-breaking algorithm panicked", e.status # "panic"),
               Chk("C04", "VERDICT", "optimal-fit reported an overflow error although all widths and penalties are usize-valued",
                   (e.alg = "opt" /\ e.usz) => e.status = "ok") >>) \o
  On("C06", IF e.finite /\ e.status # "err"
            THEN << Chk("C06", "VERDICT", "result is not an ordered partition of the fragments into non-empty runs",
                        e.status = "ok" /\ ShapeOk(e.shape, e.n)) >>
            ELSE <<>>) \o
  (IF e.status = "ok" /\ e.exact THEN
     LET fs == FragsOf(e) arr == ArrOf(e) IN
     On("C07", IF e.alg = "ff" THEN <<
         Chk("C07", "TOOL", "arrangement inconsistent with shape", IsPartition(arr, Len(fs)) = ShapeOk(e.shape, e.n)),
         Chk("C07", "VERDICT", "first-fit is not greedy-maximal (declarative)", IsGreedy(fs, e.lws, arr)),
         Chk("C07", "VERDICT", "first-fit breaks differ from the positions the statement fixes", arr = FirstFit(fs, e.lws)) >>
       ELSE <<>>) \o
     On("C03", IF e.alg = "opt" /\ Len(e.lws) \in {1, 2} /\ PenaltyOk(fs) /\ CostExact(fs, e.lws, e.pen) /\ IsPartition(arr, Len(fs)) THEN <<
         Chk("C03", "VERDICT", "optimal-fit cost is not the minimum over all arrangements (dynamic programme)",
             CostOfArr(fs, e.lws, e.pen, arr) = MinCostDP(fs, e.lws, e.pen)),
         Chk("C03", "VERDICT", "optimal-fit cost is not the minimum over all arrangements (exhaustive)",
             Len(fs) <= 9 => CostOfArr(fs, e.lws, e.pen, arr) = MinCostX(fs, e.lws, e.pen)),
         Chk("C03", "VERDICT", "optimal-fit costs more than first-fit",
             CostOfArr(fs, e.lws, e.pen, arr) <= CostOfArr(fs, e.lws, e.pen, FirstFit(fs, e.lws))) >>
       ELSE <<>>)
   ELSE <<>>)

(* ------------------------------------------------------------------------- *)
(* C05 (ii): shortcut vs general path                                        *)
(* ------------------------------------------------------------------------- *)
Judge_c05(e) ==
  On("C04", << Chk("C04", "VERDICT", "wrap_single_line / fill panicked", Ok(e)) >>) \o
  On("C05", IF ~Ok(e) THEN << Chk("C05", "VERDICT", "wrap_single_line / fill panicked", FALSE) >> ELSE <<
    Chk("C05", "VERDICT", "the byte-length shortcut is observable: shortcut and general path disagree", e.fast = e.slow) >>)

(* ------------------------------------------------------------------------- *)
(* C08 (second sentence): only the indents' widths and emptiness matter      *)
(* ------------------------------------------------------------------------- *)
SameButIndents(o1, o2) ==
  /\ o1.width = o2.width /\ o1.bw = o2.bw /\ o1.sep = o2.sep /\ o1.splitter = o2.splitter
  /\ o1.alg = o2.alg /\ o1.pen = o2.pen /\ o1.crlf = o2.crlf
IndentsAlike(o1, o2) ==
  /\ DW(o1.ii) = DW(o2.ii) /\ DW(o1.si) = DW(o2.si)
  /\ (Len(o1.ii) = 0) = (Len(o2.ii) = 0) /\ (Len(o1.si) = 0) = (Len(o2.si) = 0)
Remainders(ls, o) ==
  [k \in 1..Len(ls) |-> LET ind == IndentOfK(o, k) IN IF StartsWith(ls[k], ind) THEN SubSeq(ls[k], Len(ind) + 1, Len(ls[k])) ELSE <<-1>> \o ls[k]]
Judge_c08(e) ==
  On("C08", IF ~Ok(e) THEN << Chk("C08", "VERDICT", "wrap panicked", FALSE) >> ELSE <<
    Chk("C08", "TOOL", "option records differ in more than the indents' characters", SameButIndents(e.o1, e.o2) /\ IndentsAlike(e.o1, e.o2)),
    Chk("C08", "VERDICT", "what follows the indent depends on the indent's characters, not only on width and emptiness",
        Remainders(e.l1, e.o1) = Remainders(e.l2, e.o2)) >>)

(* ------------------------------------------------------------------------- *)
(* C09: paragraphs wrap independently; fill = join; LF/CRLF equivariance     *)
(* ------------------------------------------------------------------------- *)
RECURSIVE LfToCrlfAcc(_, _, _)
LfToCrlfAcc(s, i, acc) == IF i > Len(s) THEN acc ELSE LfToCrlfAcc(s, i + 1, IF s[i] = LF THEN acc \o <<CR, LF>> ELSE Append(acc, s[i]))
LfToCrlf(s) == LfToCrlfAcc(s, 1, <<>>)
DropFirst(ls, n) == SubSeq(ls, n + 1, Len(ls))

Judge_c09(e) ==
  LET nl == Ending(e.o) IN
  On("C09", IF ~Ok(e) THEN << Chk("C09", "VERDICT", "wrap / fill panicked", FALSE) >> ELSE <<
    Chk("C09", "TOOL", "argument relation: tab # a nl b, or ta2b # a2 nl b", e.tab = e.a \o nl \o e.b /\ e.ta2b = e.a2 \o nl \o e.b),
    Chk("C09", "VERDICT", "wrap(a nl b) does not begin with exactly the lines of wrap(a)",
        Len(e.rab) >= Len(e.ra) /\ SubSeq(e.rab, 1, Len(e.ra)) = e.ra),
    Chk("C09", "VERDICT", "the lines after those of a depend on a",
        (Len(e.rab) >= Len(e.ra) /\ Len(e.ra2b) >= Len(e.ra2)) => DropFirst(e.rab, Len(e.ra)) = DropFirst(e.ra2b, Len(e.ra2))),
    Chk("C09", "VERDICT", "with empty indents the remaining lines are not wrap(b)",
        (Len(e.o.ii) = 0 /\ Len(e.o.si) = 0 /\ Len(e.rab) >= Len(e.ra)) => DropFirst(e.rab, Len(e.ra)) = e.rb),
    Chk("C09", "VERDICT", "the output has fewer lines than the input", Len(e.rab) >= Len(SplitEndingRanges(e.tab, e.o.crlf))),
    Chk("C09", "VERDICT", "fill is not wrap's lines joined by the line ending", e.fab = Join(e.rab, nl)),
    Chk("C09", "TOOL", "CRLF twin is not the LF text with LF -> CRLF", e.hascr \/ e.tcr = LfToCrlf(e.tab)),
    Chk("C09", "VERDICT", "switching text and option from LF to CRLF changes more than the line endings",
        (~e.hascr /\ ~e.o.crlf) => (e.wcr = e.rab /\ e.fcr = LfToCrlf(e.fab))) >>)

(* ------------------------------------------------------------------------- *)
(* C13: colour codes do not change where lines break                         *)
(* ------------------------------------------------------------------------- *)
\* maximal runs of hidden characters (one or more adjacent sequences): every run must touch a visible
\* non-space character, and (hyphen splitter) must not touch a '-'
RunEnd(s, p, a) == Min({b \in a..Len(s) : b = Len(s) \/ VisAt(s, p, b + 1)})     \* s[a..RunEnd] is a maximal hidden run
Attached(s, hyphenActive) ==
  LET p == Pre(s) hid(i) == ~VisAt(s, p, i) IN
  \A a \in 1..Len(s) : (hid(a) /\ (a = 1 \/ ~hid(a - 1))) =>
     LET b == RunEnd(s, p, a)
         before == IF a > 1 THEN s[a - 1] ELSE SP
         after == IF b < Len(s) THEN s[b + 1] ELSE SP
     IN /\ (before \notin {SP, LF, CR}) \/ (after \notin {SP, LF, CR})
        /\ hyphenActive => (before # HY /\ after # HY)
EscCount(s) == Cardinality({i \in 1..Len(s) : s[i] = ESC})
StripAll(ls) == [k \in 1..Len(ls) |-> StripSeq(ls[k])]

Judge_c13(e) ==
  On("C13", IF ~Ok(e) THEN << Chk("C13", "VERDICT", "wrap panicked", FALSE) >> ELSE
    IF ~(WellFormed(e.col) /\ ~HasEsc(e.o.ii) /\ ~HasEsc(e.o.si) /\ Attached(e.col, e.o.splitter = "hyphen")) THEN <<>> ELSE <<
    Chk("C13", "TOOL", "plain text is not the coloured text with the sequences removed", StripSeq(e.col) = e.plain /\ StripDecl(e.col) = e.plain),
    Chk("C13", "VERDICT", "removing the sequences from the lines of the coloured text does not give the lines of the plain text",
        StripAll(e.rc) = e.rp),
    Chk("C13", "VERDICT", "an escape sequence was cut in two or dropped",
        (\A k \in 1..Len(e.rc) : WellFormed(e.rc[k])) /\ SumSeq([k \in 1..Len(e.rc) |-> EscCount(e.rc[k])]) = EscCount(e.col)) >>)
C13Considered(e) == Ok(e) /\ WellFormed(e.col) /\ Attached(e.col, e.o.splitter = "hyphen")

(* ------------------------------------------------------------------------- *)
(* C14: filling is idempotent                                                *)
(* ------------------------------------------------------------------------- *)
NoForcedBreak(e) ==
  \/ ~e.o.bw
  \/ LET prs == SplitEndingRanges(e.text, e.o.crlf) IN
     \A j \in 1..Len(prs) :
        LET P == SubSeq(e.text, prs[j][1], prs[j][2])
            ws == IntendedSplit(P, e.o, IF e.o.sep = "uax" THEN ToSet(e.paras[j].opps) ELSE {})
        IN \A k \in 1..Len(ws) : ws[k].w <= e.o.width
NoOverflow(e) == LET ls == SplitEnding(e.f1, e.o.crlf) IN \A k \in 1..Len(ls) : DW(ls[k]) <= e.o.width
C14Applies(e) ==
  /\ Len(e.o.ii) = 0 /\ Len(e.o.si) = 0 /\ e.o.splitter \in {"none", "hyphen"}
  /\ (e.o.sep = "ascii" \/ NoForcedBreak(e))
  /\ (e.o.alg = "opt" => NoOverflow(e))
Judge_c14(e) ==
  On("C14", IF ~Ok(e) THEN << Chk("C14", "VERDICT", "fill panicked", FALSE) >> ELSE
    IF ~C14Applies(e) THEN <<>> ELSE
    \* K3's root cause (the hyphen splitter cuts an escape sequence at a '-' inside it) gets its own reason
    IF e.o.splitter = "hyphen" /\ HyphenInsideSeq(e.text)
    THEN << Chk("C14", "VERDICT", "fill(fill(t, o), o) differs from fill(t, o) (escape sequence containing a hyphen, hyphen splitter)", e.f2 = e.f1) >>
    ELSE << Chk("C14", "VERDICT", "fill(fill(t, o), o) differs from fill(t, o)", e.f2 = e.f1) >>)

(* ------------------------------------------------------------------------- *)
(* C15 / C16: unfill, refill                                                 *)
(* ------------------------------------------------------------------------- *)
OnlyPrefixChars(s) == \A i \in 1..Len(s) : s[i] \in PrefixChars
Judge_unfill(e) ==
  On("C04", << Chk("C04", "VERDICT", "unfill panicked", Ok(e)) >>) \o
  On("C15", IF ~Ok(e) THEN << Chk("C15", "VERDICT", "unfill panicked", FALSE) >> ELSE
    LET ls == Lines(e.s) u == UnfillOp(e.s) IN <<
    Chk("C15", "VERDICT", "a returned indent is not a prefix of the lines it describes",
        /\ (Len(ls) = 0 => (e.ii = <<>> /\ e.si = <<>>))
        /\ (Len(ls) >= 1 => StartsWith(ls[1], e.ii))
        /\ \A k \in 2..Len(ls) : StartsWith(ls[k], e.si)),
    Chk("C15", "VERDICT", "a returned indent contains a non-prefix character", OnlyPrefixChars(e.ii) /\ OnlyPrefixChars(e.si)),
    Chk("C15", "VERDICT", "the unfilled text contains a line break other than a final one",
        \A i \in 1..(Len(e.text) - 1) : e.text[i] # LF),
    Chk("C15", "VERDICT", "reported line ending is not 'CRLF iff there is an ending and all endings are CRLF'",
        ~HasEmptyLine(e.s) => (e.crlf = AllCrlf(e.s))),
    Chk("C15", "DRIFT", "unfill differs from the operational model",
        ~u.fault /\ e.text = u.text /\ e.ii = u.ii /\ e.si = u.si /\ e.width = u.width /\ e.crlf = u.crlf),
    Chk("C15", "DRIFT", "hook unfill.options: state after the first loop differs from the specification's",
        Len(e.hk) = 1 /\ e.hk[1] = <<u.width, ByteLen(u.ii), ByteLen(u.si)>>) >>)

\* the filled form breaks the paragraph at spaces only: its lines, without their indents, joined by single spaces
\* are the paragraph again
FilledLines(filled, o, trail) ==
  LET ls == SplitEnding(filled, o.crlf) IN IF trail THEN SubSeq(ls, 1, Len(ls) - 1) ELSE ls
BreaksAtSpaces(P, filled, o, trail) ==
  LET ls == FilledLines(filled, o, trail) IN
  /\ \A k \in 1..Len(ls) : StartsWith(ls[k], IndentOfK(o, k))
  /\ Join([k \in 1..Len(ls) |-> SubSeq(ls[k], Len(IndentOfK(o, k)) + 1, Len(ls[k]))], <<SP>>) = P
\* a paragraph of single-space-separated non-empty words none of which begins with a prefix character
GoodPara(P) ==
  /\ Len(P) > 0 /\ P[1] # SP /\ P[Len(P)] # SP /\ ~Contains(P, LF) /\ ~Contains(P, CR)
  /\ \A i \in 1..(Len(P) - 1) : ~(P[i] = SP /\ P[i + 1] = SP)
  /\ \A i \in 1..Len(P) : (i = 1 \/ P[i - 1] = SP) => P[i] \notin PrefixChars
C15Applies(e) ==
  /\ GoodPara(e.para) /\ OnlyPrefixChars(e.o.ii) /\ OnlyPrefixChars(e.o.si)
  /\ e.filled = e.core \o (IF e.trail THEN Ending(e.o) ELSE <<>>)
  /\ BreaksAtSpaces(e.para, e.filled, e.o, e.trail)
Judge_c15(e) ==
  On("C15", IF ~Ok(e) THEN << Chk("C15", "VERDICT", "fill / unfill panicked", FALSE) >> ELSE
    IF ~C15Applies(e) THEN <<>> ELSE
    LET nlines == Len(FilledLines(e.filled, e.o, e.trail)) IN <<
    Chk("C15", "VERDICT", "unfill(fill(p)) does not return the original paragraph (plus trailing line ending)",
        e.u.text = e.para \o (IF e.trail THEN Ending(e.o) ELSE <<>>)),
    Chk("C15", "VERDICT", "unfill does not recover the initial indent", e.u.ii = e.o.ii),
    Chk("C15", "VERDICT", "unfill does not recover the subsequent indent / line ending of a filled paragraph with at least two lines",
        nlines >= 2 => (e.u.si = e.o.si /\ e.u.crlf = e.o.crlf)),
    Chk("C15", "VERDICT", "unfill's width is not the width of the widest line", e.u.width = WidestLine(e.filled)) >>)

Judge_c16(e) ==
  On("C16", IF ~Ok(e) THEN << Chk("C16", "VERDICT", "fill / refill panicked", FALSE) >> ELSE
    IF ~(/\ GoodPara(e.para) /\ OnlyPrefixChars(e.o1.ii) /\ OnlyPrefixChars(e.o1.si)
         /\ e.filled = e.core \o (IF e.trail THEN Ending(e.o1) ELSE <<>>)
         /\ BreaksAtSpaces(e.para, e.filled, e.o1, e.trail)
         /\ Len(FilledLines(e.filled, e.o1, e.trail)) >= 2) THEN <<>> ELSE <<
    Chk("C16", "TOOL", "o2x is not o2 with o1's indents",
        e.o2x.ii = e.o1.ii /\ e.o2x.si = e.o1.si /\ SameButIndents(e.o2x, e.o2)),
    Chk("C16", "VERDICT", "refill(fill(t, o1), o2) differs from fill(t, o2 with o1's indents) (+ converted trailing ending)",
        e.refilled = e.direct \o (IF e.trail THEN Ending(e.o2) ELSE <<>>)) >>)

(* ------------------------------------------------------------------------- *)
(* C17: fill_inplace                                                         *)
(* ------------------------------------------------------------------------- *)
Judge_c17(e) ==
  On("C04", << Chk("C04", "VERDICT", "fill_inplace panicked", Ok(e)) >>) \o
  On("C17", IF ~Ok(e) THEN << Chk("C17", "VERDICT", "fill_inplace panicked", FALSE) >> ELSE <<
    Chk("C17", "VERDICT", "fill_inplace changed the length or a position other than space -> newline",
        Len(e.res) = Len(e.text) /\ \A i \in 1..Len(e.text) : e.res[i] = e.text[i] \/ (e.text[i] = SP /\ e.res[i] = LF)),
    Chk("C17", "VERDICT", "lines of fill_inplace (trailing spaces trimmed) differ from wrap with the documented options",
        LET ls == SplitChar(e.res, LF) IN [k \in 1..Len(ls) |-> TrimEndSpaces(ls[k])] = e.wl),
    Chk("C17", "DRIFT", "fill_inplace differs from the operational model", e.res = FillInplaceOp(e.text, e.width)),
    Chk("C17", "DRIFT", "hook fill_inplace.index: the byte offsets pushed by the code differ from the specification's",
        {BOff(e.text)[p] + 1 : p \in InplaceIdx(e.text, e.width)} = {e.hk[k][2] : k \in 1..Len(e.hk)} /\ Len(e.hk) = Cardinality(InplaceIdx(e.text, e.width))),
    Chk("C17", "DRIFT", "wrap with the documented options differs from the operational model",
        e.wl = LineStrings(WrapFF(e.text, InplaceOpts(e.width), [j \in 1..Len(SplitCharRanges(e.text, LF)) |-> {}]))) >>)

(* ------------------------------------------------------------------------- *)
(* C18 / C19: dedent, indent                                                 *)
(* ------------------------------------------------------------------------- *)
Judge_dedent(e) ==
  On("C04", << Chk("C04", "VERDICT", "dedent panicked", Ok(e)) >>) \o
  On("C18", IF ~Ok(e) THEN << Chk("C18", "VERDICT", "dedent panicked", FALSE) >> ELSE <<
    Chk("C18", "VERDICT", "dedent does not remove exactly the longest common whitespace margin of the non-blank lines", e.res = DedentDecl(e.s)),
    Chk("C18", "DRIFT", "dedent differs from the operational model", e.res = DedentOp(e.s)),
    Chk("C18", "DRIFT", "hook dedent.margin: the margin computed by the code differs from the specification's",
        Len(e.hk) = 1 /\ e.hk[1] = <<ByteLen(Margin(Lines(e.s)))>>) >>)

Judge_c18(e) ==
  On("C18", IF ~Ok(e) THEN << Chk("C18", "VERDICT", "dedent / indent panicked", FALSE) >> ELSE <<
    Chk("C18", "VERDICT", "dedent is not idempotent", CrOnlyInCrlf(e.s) => e.d2 = e.d1),
    Chk("C18", "VERDICT", "dedent(indent(s, p)) differs from dedent(s)",
        (~Contains(e.s, CR) /\ AllWs(e.p) /\ ~Contains(e.p, LF) /\ ~Contains(e.p, CR) /\ e.ind = IndentDecl(e.s, e.p)) => e.d3 = e.d1) >>)

Judge_indent(e) ==
  On("C04", << Chk("C04", "VERDICT", "indent panicked", Ok(e)) >>) \o
  On("C19", IF ~Ok(e) THEN << Chk("C19", "VERDICT", "indent panicked", FALSE) >> ELSE <<
    Chk("C19", "VERDICT", "indent does not prefix every line as stated", e.res = IndentDecl(e.s, e.p)),
    Chk("C19", "VERDICT", "indent changed the number of newlines", Contains(e.p, LF) \/ CountChar(e.res, LF) = CountChar(e.s, LF)),
    Chk("C19", "VERDICT", "indent(s, \"\") differs from s", Len(e.p) = 0 => e.res = e.s),
    Chk("C19", "DRIFT", "indent differs from the operational model", e.res = IndentOp(e.s, e.p)) >>)

(* ------------------------------------------------------------------------- *)
(* C20: wrap_columns                                                         *)
(* ------------------------------------------------------------------------- *)
C20Layout(e, cw, rem) ==
  LET lpc == LinesPerColumn(Len(e.wl), e.cols) IN
  /\ Len(e.rows) = lpc
  /\ \A r \in 1..lpc : e.rows[r] = Row(e.wl, r, lpc, e.cols, cw, e.lg, e.mg, e.rg, rem)
Judge_c20(e) ==
  LET cw == ColumnWidth(e.o.width, e.cols, e.lg, e.mg, e.rg)
      inner == InnerWidth(e.o.width, e.cols, e.lg, e.mg, e.rg)
      fits == \A k \in 1..Len(e.wl) : DW(e.wl[k]) <= cw
      plain == ~HasEsc(e.lg) /\ ~HasEsc(e.mg) /\ ~HasEsc(e.rg) /\ \A k \in 1..Len(e.wl) : ~HasEsc(e.wl[k])
  IN
  On("C04", << Chk("C04", "VERDICT", "wrap_columns panicked with at least one column", e.cols = 0 \/ Ok(e)) >>) \o
  On("C20", IF e.cols = 0 THEN <<>> ELSE IF ~Ok(e) THEN << Chk("C20", "VERDICT", "wrap_columns failed (panic) although the column count is at least one", FALSE) >> ELSE <<
    Chk("C20", "TOOL", "column width used for the reference wrap call differs from the specification's", e.cw = cw),
    Chk("C20", "VERDICT", "rows are not left gap + column-major cells separated by the middle gap (+ padding) + right gap",
        \E rem \in 0..Max2(inner, 1) : C20Layout(e, cw, rem)),
    Chk("C20", "VERDICT", "rows differ in display width although no line is wider than its column",
        (fits /\ plain) => \A r \in 1..Len(e.rows) : DW(e.rows[r]) = DW(e.rows[1])),
    Chk("C20", "VERDICT", "rows are narrower than gaps plus columns",
        plain => \A r \in 1..Len(e.rows) : DW(e.rows[r]) >= DW(e.lg) + DW(e.rg) + (e.cols - 1) * DW(e.mg) + e.cols * cw),
    Chk("C20", "DRIFT", "rows differ from the operational model (remainder = inner width mod column width)",
        e.rows = ColumnsOp(e.wl, e.o.width, e.cols, e.lg, e.mg, e.rg)),
    Chk("C20", "DRIFT", "hook wrap_columns.layout: inner width / column width / line counts differ from the specification's",
        Len(e.hk) = 1 /\ e.hk[1] = <<inner, cw, Len(e.wl), LinesPerColumn(Len(e.wl), e.cols)>>) >>)

(* ------------------------------------------------------------------------- *)
(* the std model is itself checked (DESIGN 3.5)                              *)
(* ------------------------------------------------------------------------- *)
Judge_std(e) ==
  << Chk("TOOL", "TOOL", "the specification's model of a std string operation disagrees with std",
         CASE e.op = "lines" -> e.res = Lines(e.s)
           [] e.op = "split_lf" -> e.res = SplitChar(e.s, LF)
           [] e.op = "split_crlf" -> e.res = SplitEnding(e.s, TRUE)
           [] e.op = "split_terminator" -> e.res = SplitTerminator(e.s, LF)
           [] e.op = "trim_end_spaces" -> e.res = <<TrimEndSpaces(e.s)>>
           [] e.op = "trim" -> e.res = <<TrimWs(e.s)>>
           [] e.op = "trim_end" -> e.res = <<TrimEndWs(e.s)>>
           [] e.op = "trim_start_prefix" -> e.res = <<TrimStartMatches(e.s, PrefixChars)>>
           [] OTHER -> FALSE) >>

\* the Options builder: a sequence of builder calls (not a listed property: drift only)
Judge_optseq(e) ==
  LET want == ApplyAll(DefaultOpts(e.w0, e.full), e.ops, 1, e.full) IN <<
    Chk("C08", "DRIFT", "Options builder: fields after the sequence of builder calls differ from the specification's", e.res = want),
    Chk("C08", "DRIFT", "Options::from(&options) does not copy every field", e.by_ref = e.res),
    Chk("C08", "DRIFT", "Options::from(width) differs from Options::new(width)", e.from_usize = DefaultOpts(e.w0, e.full)) >>

\* generic call event of the adversarial totality generator: only the status matters
Judge_call(e) == On("C04", << Chk("C04", "VERDICT", "a public function panicked", e.allowed \/ Ok(e)) >>)
=============================================================================
