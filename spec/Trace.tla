-------------------------------- MODULE Trace --------------------------------
(***************************************************************************)
(* Trace validation: every line of an NDJSON trace recorded from the real  *)
(* crate is consumed by one step; the step evaluates the Judge_<kind>      *)
(* predicates of the specification on the event and prints one line per    *)
(* failed check.  The position variable l is the only state: textwrap is a *)
(* sequential library and every event carries the complete arguments and   *)
(* result of the call(s) it describes, so events are independent and a     *)
(* failed event never hides the rest of the trace.                         *)
(*                                                                         *)
(* Line 1 of every trace file is the character table (oracle widths etc.). *)
(***************************************************************************)
EXTENDS PropsAll, Json, IOUtils

Rec == ndJsonDeserialize(IOEnv.TRACE)
Tab == Rec[1]
TabN == Len(Tab.cp)
\* the harness writes the table sorted by code point: binary search (tables with thousands of random scalars)
RECURSIVE TabFind(_, _, _)
TabFind(c, lo, hi) == IF lo >= hi THEN lo
                      ELSE LET mid == (lo + hi) \div 2 IN IF Tab.cp[mid] < c THEN TabFind(c, mid + 1, hi) ELSE TabFind(c, lo, mid)
TabPos(c) == TabFind(c, 1, TabN)
UW == Tab.wmode = "uw"

TraceW(c) == IF UW THEN Tab.w[TabPos(c)] ELSE CutoffW(c)
TraceIsAlnum(c) == Tab.an[TabPos(c)] = 1
TraceIsWs(c) == Tab.ws[TabPos(c)] = 1

VARIABLE l

Judge(e) ==
  CASE e.ev = "dw"      -> Judge_dw(e)
    [] e.ev = "scalars" -> Judge_scalars(e, UW)
    [] e.ev = "dwrel"   -> Judge_dwrel(e)
    [] e.ev = "words"   -> Judge_words(e)
    [] e.ev = "split"   -> Judge_split(e)
    [] e.ev = "break"   -> Judge_break(e)
    [] OTHER            -> JudgeMore(e)

\* registers: 1 = events judged, 2 = failed VERDICT checks, 3 = failed DRIFT checks, 4 = failed TOOL checks,
\*            5 = checks evaluated, 6 = events on which a VERDICT check of a selected property applied *and* that are
\*            non-trivial (NonTrivial in PropsAll.tla), 7 = events on which a VERDICT check of a selected property applied
ReportE(i, cs, ev) ==
  /\ \A k \in 1..Len(cs) : IF cs[k].ok THEN TRUE ELSE PrintT(<<cs[k].c, i, cs[k].p, cs[k].r>>)
  /\ TLCSet(1, TLCGet(1) + 1)
  /\ TLCSet(5, TLCGet(5) + Len(cs))
  /\ TLCSet(6, TLCGet(6) + (IF (\E k \in 1..Len(cs) : cs[k].c = "VERDICT" /\ cs[k].p \in Sel) /\ NonTrivial(ev) THEN 1 ELSE 0))
  /\ TLCSet(7, TLCGet(7) + (IF \E k \in 1..Len(cs) : cs[k].c = "VERDICT" /\ cs[k].p \in Sel THEN 1 ELSE 0))
  /\ LET bad(c) == Cardinality({k \in 1..Len(cs) : ~cs[k].ok /\ cs[k].c = c}) IN
     /\ TLCSet(2, TLCGet(2) + bad("VERDICT"))
     /\ TLCSet(3, TLCGet(3) + bad("DRIFT"))
     /\ TLCSet(4, TLCGet(4) + bad("TOOL"))

Report(i, cs) == ReportE(i, cs, Rec[i])

Init == l = 2 /\ TLCSet(1, 0) /\ TLCSet(2, 0) /\ TLCSet(3, 0) /\ TLCSet(4, 0) /\ TLCSet(5, 0) /\ TLCSet(6, 0) /\ TLCSet(7, 0)
Next == l <= Len(Rec) /\ Report(l, Judge(Rec[l])) /\ l' = l + 1
Spec == Init /\ [][Next]_l

\* every line was consumed (one state per line: l = 2 .. Len(Rec)+1)
Accepted ==
  /\ PrintT(<<"STATS", TLCGet(1), TLCGet(2), TLCGet(3), TLCGet(4), TLCGet(5), Len(Rec) - 1, TLCGet(6), TLCGet(7)>>)
  /\ TLCGet("stats").diameter = Len(Rec)
=============================================================================
