SPECIFICATION Spec
CONSTANTS
  W <- MCW
  IsAlnum <- MCAlnum
  IsWs <- MCWs
  Dev = {}
  Sel = {"C04", "C20"}
  Alphabet = {97, 32, 65320}
  MaxLen = 2
  ColCounts = {0, 1, 2, 3}
  Widths = {0, 1, 2, 3, 5, 8}
  Gaps <- MCGaps
  BWs = {TRUE, FALSE}
PROPERTY Terminates
CHECK_DEADLOCK FALSE
