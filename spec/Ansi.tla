-------------------------------- MODULE Ansi --------------------------------
(***************************************************************************)
(* ANSI escape sequences: the scanner of core.rs:52-83                     *)
(* (skip_ansi_escape_sequence) as a five-state automaton, the visibility   *)
(* mask it induces, display_width (core.rs:199-209), stripping             *)
(* (word_separators.rs:220-232), and - independently of the automaton -    *)
(* the declarative definition of well-formed sequences and of stripping    *)
(* that property C10 states.                                               *)
(***************************************************************************)
EXTENDS Chars

(* ---------- operational: the scanner ---------- *)
\* T  = plain text          E  = just saw ESC (next char is swallowed whatever it is)
\* C  = inside CSI          O  = inside OSC           OE = inside OSC, previous char was ESC
ScanStates == {"T", "E", "C", "O", "OE"}
ScanNext(st, c) ==
  CASE st = "T"  -> IF c = ESC THEN "E" ELSE "T"
    [] st = "E"  -> IF c = LBR THEN "C" ELSE IF c = RBR THEN "O" ELSE "T"
    [] st = "C"  -> IF c >= 64 /\ c <= 126 THEN "T" ELSE "C"
    [] st = "O"  -> IF c = BEL THEN "T" ELSE IF c = ESC THEN "OE" ELSE "O"
    [] st = "OE" -> IF c = BEL \/ c = BSL THEN "T" ELSE IF c = ESC THEN "OE" ELSE "O"

RECURSIVE PreStates(_, _, _)
PreStates(s, i, acc) == IF i > Len(s) THEN acc ELSE PreStates(s, i + 1, Append(acc, ScanNext(acc[i], s[i])))
\* Pre(s)[i] = scanner state before s[i]; Pre(s)[Len(s)+1] = state at the end
Pre(s) == PreStates(s, 1, <<"T">>)
\* a character is visible (counted, kept by strip) iff the scanner is in T and it is not ESC
VisAt(s, p, i) == p[i] = "T" /\ s[i] # ESC

RECURSIVE SumVis(_, _, _, _)
SumVis(s, p, i, acc) == IF i > Len(s) THEN acc ELSE SumVis(s, p, i + 1, IF VisAt(s, p, i) THEN acc + W(s[i]) ELSE acc)
\* display_width
DW(s) == SumVis(s, Pre(s), 1, 0)

RECURSIVE StripAcc(_, _, _, _)
StripAcc(s, p, i, acc) == IF i > Len(s) THEN acc ELSE StripAcc(s, p, i + 1, IF VisAt(s, p, i) THEN Append(acc, s[i]) ELSE acc)
\* strip_ansi_escape_sequences
StripSeq(s) == StripAcc(s, Pre(s), 1, <<>>)

\* vc[i] = number of visible characters before position i (i in 1..Len+1)
RECURSIVE VisCounts(_, _, _, _)
VisCounts(s, p, i, acc) == IF i > Len(s) THEN acc ELSE VisCounts(s, p, i + 1, Append(acc, acc[i] + IF VisAt(s, p, i) THEN 1 ELSE 0))
VisCount(s) == VisCounts(s, Pre(s), 1, <<0>>)

(* ---------- declarative: what C10 says, without the automaton ---------- *)
\* end position (inclusive) of the sequence starting at ESC position i, 0 if it is not a
\* well-formed sequence: CSI = ESC [ ... final(@..~);  OSC = ESC ] ... (BEL | ESC \)
CsiEnd(s, i) == LET c == {j \in (i + 2)..Len(s) : s[j] >= 64 /\ s[j] <= 126} IN IF c = {} THEN 0 ELSE Min(c)
OscEnd(s, i) == LET c == {j \in (i + 2)..Len(s) : s[j] = BEL \/ (s[j] = BSL /\ j - 1 >= i + 2 /\ s[j - 1] = ESC)}
                IN IF c = {} THEN 0 ELSE Min(c)
SeqEnd(s, i) == IF i + 1 > Len(s) THEN 0
                ELSE IF s[i + 1] = LBR THEN CsiEnd(s, i)
                ELSE IF s[i + 1] = RBR THEN OscEnd(s, i) ELSE 0
\* the only ESC allowed inside a sequence is the one of an "ESC \" terminator
NoStrayEsc(s, i, e) == \A j \in (i + 1)..e : s[j] = ESC => (s[i + 1] = RBR /\ j = e - 1 /\ s[e] = BSL)

RECURSIVE WFFrom(_, _)
WFFrom(s, i) == IF i > Len(s) THEN TRUE
                ELSE IF s[i] # ESC THEN WFFrom(s, i + 1)
                ELSE LET e == SeqEnd(s, i) IN e > 0 /\ NoStrayEsc(s, i, e) /\ WFFrom(s, e + 1)
\* every ESC begins a well-formed (terminated) CSI or OSC sequence
WellFormed(s) == WFFrom(s, 1)

\* the text *parses*: every ESC either begins a terminated CSI / OSC sequence or lies inside one (an OSC payload may
\* contain an ESC that is not followed by a backslash; "ESC ] up to BEL or ESC \" still delimits the sequence).  This
\* is the domain of C10's first sentence: read literally ("every ESC begins a sequence") it would exclude even the ESC
\* of an "ESC \" terminator, so the ESCs inside a sequence cannot be meant.  WellFormed (stricter) is what C02 / C13 use.
RECURSIVE ParsesFrom(_, _)
ParsesFrom(s, i) == IF i > Len(s) THEN TRUE
                    ELSE IF s[i] # ESC THEN ParsesFrom(s, i + 1)
                    ELSE LET e == SeqEnd(s, i) IN e > 0 /\ ParsesFrom(s, e + 1)
Parses(s) == ParsesFrom(s, 1)

RECURSIVE StripDeclAcc(_, _, _)
StripDeclAcc(s, i, acc) == IF i > Len(s) THEN acc
                           ELSE IF s[i] # ESC THEN StripDeclAcc(s, i + 1, Append(acc, s[i]))
                           ELSE LET e == SeqEnd(s, i) IN IF e = 0 THEN acc ELSE StripDeclAcc(s, e + 1, acc)
StripDecl(s) == StripDeclAcc(s, 1, <<>>)        \* meaningful for WellFormed(s) only
RECURSIVE SumW(_, _, _)
SumW(s, i, acc) == IF i > Len(s) THEN acc ELSE SumW(s, i + 1, acc + W(s[i]))
DWDecl(s) == SumW(StripDecl(s), 1, 0)
PlainWidth(s) == SumW(s, 1, 0)                 \* for ESC-free s

\* positions of s that lie strictly inside an escape sequence, i.e. cutting *before* them would
\* cut a sequence in two: the scanner is not in state T there
InsideSeq(s, i) == Pre(s)[i] # "T"
HasEsc(s) == Contains(s, ESC)
=============================================================================
