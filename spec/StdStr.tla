------------------------------- MODULE StdStr -------------------------------
(***************************************************************************)
(* The Rust std string operations textwrap relies on, as TLA+ operators.   *)
(* The model is itself checked on every trace file: the harness calls std  *)
(* directly and logs `std` events; a disagreement is a tool error, never a *)
(* verdict about textwrap (DESIGN 3.5).                                    *)
(*                                                                         *)
(* Ranges are <<from, to>> with 1-based inclusive character positions; an  *)
(* empty piece is <<from, from-1>>.                                        *)
(***************************************************************************)
EXTENDS Chars

(* ---------- str::split(char) ---------- *)
RECURSIVE SplitCharAcc(_, _, _, _, _)
SplitCharAcc(s, c, i, start, acc) ==
  IF i > Len(s) THEN Append(acc, <<start, Len(s)>>)
  ELSE IF s[i] = c THEN SplitCharAcc(s, c, i + 1, i + 1, Append(acc, <<start, i - 1>>))
  ELSE SplitCharAcc(s, c, i + 1, start, acc)
SplitCharRanges(s, c) == SplitCharAcc(s, c, 1, 1, <<>>)

(* ---------- str::split("\r\n") : leftmost non-overlapping matches ---------- *)
RECURSIVE SplitCrlfAcc(_, _, _, _)
SplitCrlfAcc(s, i, start, acc) ==
  IF i > Len(s) THEN Append(acc, <<start, Len(s)>>)
  ELSE IF s[i] = CR /\ i + 1 <= Len(s) /\ s[i + 1] = LF
       THEN SplitCrlfAcc(s, i + 2, i + 2, Append(acc, <<start, i - 1>>))
       ELSE SplitCrlfAcc(s, i + 1, start, acc)
SplitCrlfRanges(s) == SplitCrlfAcc(s, 1, 1, <<>>)

\* text.split(line_ending.as_str())
SplitEndingRanges(s, crlf) == IF crlf THEN SplitCrlfRanges(s) ELSE SplitCharRanges(s, LF)

RangesToSeqs(s, rs) == [k \in 1..Len(rs) |-> SubSeq(s, rs[k][1], rs[k][2])]
SplitChar(s, c) == RangesToSeqs(s, SplitCharRanges(s, c))
SplitEnding(s, crlf) == RangesToSeqs(s, SplitEndingRanges(s, crlf))

(* ---------- str::split_terminator('\n') : like split, a trailing empty piece is dropped ---------- *)
SplitTerminatorRanges(s, c) ==
  LET r == SplitCharRanges(s, c) n == Len(r)
  IN IF r[n][2] < r[n][1] THEN SubSeq(r, 1, n - 1) ELSE r
SplitTerminator(s, c) == RangesToSeqs(s, SplitTerminatorRanges(s, c))

(* ---------- str::lines() : split_terminator('\n'), then one trailing '\r' removed per line ---------- *)
LinesRanges(s) ==
  LET r == SplitTerminatorRanges(s, LF)
  IN [k \in 1..Len(r) |-> IF r[k][2] >= r[k][1] /\ s[r[k][2]] = CR
                                /\ (r[k][2] < Len(s))          \* the CR is followed by the LF that ended the line
                          THEN <<r[k][1], r[k][2] - 1>> ELSE r[k]]
Lines(s) == RangesToSeqs(s, LinesRanges(s))

(* ---------- trimming ---------- *)
RECURSIVE TrimEndIdx(_, _, _, _)
\* smallest e in a..b with s[e..b) all in set  (b exclusive)
TrimEndIdx(s, a, b, set) == IF b > a /\ s[b - 1] \in set THEN TrimEndIdx(s, a, b - 1, set) ELSE b
RECURSIVE TrimStartIdx(_, _, _, _)
\* largest a' in a..b with s[a..a') all in set
TrimStartIdx(s, a, b, set) == IF a < b /\ s[a] \in set THEN TrimStartIdx(s, a + 1, b, set) ELSE a

TrimEndMatches(s, set) == SubSeq(s, 1, TrimEndIdx(s, 1, Len(s) + 1, set) - 1)
TrimStartMatches(s, set) == SubSeq(s, TrimStartIdx(s, 1, Len(s) + 1, set), Len(s))
TrimEndSpaces(s) == TrimEndMatches(s, {SP})

RECURSIVE TrimEndWsIdx(_, _, _)
TrimEndWsIdx(s, a, b) == IF b > a /\ IsWs(s[b - 1]) THEN TrimEndWsIdx(s, a, b - 1) ELSE b
RECURSIVE TrimStartWsIdx(_, _, _)
TrimStartWsIdx(s, a, b) == IF a < b /\ IsWs(s[a]) THEN TrimStartWsIdx(s, a + 1, b) ELSE a
TrimEndWs(s) == SubSeq(s, 1, TrimEndWsIdx(s, 1, Len(s) + 1) - 1)                 \* str::trim_end
TrimWs(s) == LET e == TrimEndWsIdx(s, 1, Len(s) + 1) IN SubSeq(s, TrimStartWsIdx(s, 1, e), e - 1)   \* str::trim
AllWs(s) == \A i \in 1..Len(s) : IsWs(s[i])
\* length of the leading whitespace run
LeadWs(s) == TrimStartWsIdx(s, 1, Len(s) + 1) - 1
=============================================================================
