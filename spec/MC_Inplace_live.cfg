SPECIFICATION Spec
CONSTANTS
  W <- MCW
  IsAlnum <- MCAlnum
  IsWs <- MCWs
  Dev = {}
  Sel = {"C04", "C17"}
  Alphabet = {97, 32, 233, 10}
  MaxLen = 3
  Widths = {0, 1, 2, 3, 4, 999999999}
PROPERTY Terminates
CHECK_DEADLOCK FALSE
