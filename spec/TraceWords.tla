------------------------------ MODULE TraceWords ------------------------------
(***************************************************************************)
(* Step-level trace validation of word finding: the events recorded        *)
(* through the crate's `verif-hooks` feature are replayed through the      *)
(* actions of the step machine MC_Words.                                   *)
(*  - ASCII separator: one `ascii_space.char` event per character (byte    *)
(*    index, in_whitespace and start before the step) -> AsciiStep;        *)
(*  - Unicode separator: one `unicode_break.opportunity` event per kept    *)
(*    break opportunity (byte index in the *stripped* line, start) ->      *)
(*    UaxStep, followed by `unicode_break.word` (byte index in the         *)
(*    original line) exactly when the idx_map cursor finds the position.   *)
(* The opportunity set of the machine's BeginUax is bound to the oracle's  *)
(* (unicode-linebreak on the harness's own stripped copy), as in Trace.tla.*)
(* AsciiEnd / UaxEnd are silent.                                           *)
(***************************************************************************)
EXTENDS MC_Words, IOUtils

Rec == ndJsonDeserialize(IOEnv.TRACE)
Tab == Rec[1]
TabN == Len(Tab.cp)
RECURSIVE TabFind(_, _, _)
TabFind(c_, lo, hi) == IF lo >= hi THEN lo
                       ELSE LET mid == (lo + hi) \div 2 IN IF Tab.cp[mid] < c_ THEN TabFind(c_, mid + 1, hi) ELSE TabFind(c_, lo, mid)
TabPos(c_) == TabFind(c_, 1, TabN)
UW == Tab.wmode = "uw"
TraceW(c_) == IF UW THEN Tab.w[TabPos(c_)] ELSE CutoffW(c_)
TraceIsAlnum(c_) == Tab.an[TabPos(c_)] = 1
TraceIsWs(c_) == Tab.ws[TabPos(c_)] = 1

VARIABLES l, pend
tvars == <<vars, l, pend>>
e == Rec[l]
IsEv(evk) == l <= Len(Rec) /\ Rec[l].ev = evk
Bump == TLCSet(5, l + 1)
Reject(why) ==
  /\ PrintT(<<"STEP", l, Rec[l].ev, why>>) /\ TLCSet(2, TLCGet(2) + 1)
  /\ pc' = "rejected" /\ UNCHANGED <<s, sep, opps, i, start, inws, ops, k, cur, out, pend>>
Count == TLCSet(1, TLCGet(1) + 1)
Mismatch(why) == PrintT(<<"STEP", l, Rec[l].ev, why>>) /\ TLCSet(2, TLCGet(2) + 1)

SilentEnabled == (pc = "ascii" /\ i > Len(s)) \/ (pc = "uax" /\ k > Len(ops) /\ pend < 0)
Silent == SilentEnabled /\ (AsciiEnd \/ UaxEnd) /\ Count /\ UNCHANGED <<l, pend>>

T_Begin ==
  /\ IsEv("w.begin") /\ Bump
  /\ s' = e.s /\ sep' = e.sep /\ i' = 1 /\ start' = 1 /\ inws' = FALSE /\ k' = 1 /\ cur' = 1 /\ out' = <<>> /\ pend' = -1
  /\ IF e.sep = "ascii" THEN pc' = "ascii" /\ opps' = {} /\ ops' = <<>>
     ELSE pc' = "uax" /\ opps' = ToSet(e.orc.opps) /\ ops' = SetToSortSeq(UaxUsedOp(e.s, ToSet(e.orc.opps)), <)
  /\ TLCSet(3, TLCGet(3) + 1)
Skip == pc = "rejected" /\ l <= Len(Rec) /\ Rec[l].ev # "w.begin" /\ Bump /\ UNCHANGED <<vars, pend>>

\* one iteration of `for (idx, ch) in char_indices.by_ref()`; the hook fires at the top of the body
T_AChar ==
  /\ IsEv("a.char") /\ pc # "rejected" /\ ~SilentEnabled /\ Bump /\ UNCHANGED pend
  /\ IF ~(pc = "ascii" /\ i <= Len(s)) THEN Reject("no character left")
     ELSE LET bo == BOff(s) IN
          /\ AsciiStep
          /\ IF e.idx = bo[i] /\ (e.inws = 1) = inws /\ e.start = bo[start] THEN Count ELSE Mismatch("byte index / in_whitespace / start differ")
\* one iteration of `for (idx, _) in opportunities.by_ref()`; the hook fires at the top of the body
T_UOpp ==
  /\ IsEv("x.opp") /\ pc # "rejected" /\ ~SilentEnabled /\ Bump
  /\ IF pend >= 0 THEN Reject("the idx_map cursor found the position but no word event followed")
     ELSE IF ~(pc = "uax" /\ k <= Len(ops)) THEN Reject("no kept opportunity left: the code keeps an opportunity the specification filters out")
     ELSE LET bs == BOff(StripSeq(s)) bo == BOff(s) IN
          /\ UaxStep
          /\ pend' = (IF Len(out') > Len(out) THEN bo[start'] ELSE -1)      \* the cursor found the position iff a word was emitted
          /\ IF e.idx = bs[ops[k] + 1] /\ e.start = bo[start] THEN Count ELSE Mismatch("stripped byte index of the opportunity / start differ")
T_UWord ==
  /\ IsEv("x.word") /\ pc # "rejected" /\ ~SilentEnabled /\ Bump
  /\ IF pend < 0 THEN Reject("word event although the idx_map cursor of the specification is exhausted")
     ELSE /\ pend' = -1 /\ UNCHANGED vars
          /\ IF e.orig = pend THEN Count ELSE Mismatch("original byte index of the break differs")
T_End ==
  /\ IsEv("s.end") /\ pc # "rejected" /\ ~SilentEnabled /\ Bump /\ UNCHANGED pend
  /\ IF e.status # "ok" THEN Reject("find_words panicked")
     ELSE IF pc # "done" THEN Reject("find_words returned before the machine was done")
     ELSE /\ pc' = "idle" /\ UNCHANGED <<s, sep, opps, i, start, inws, ops, k, cur, out>>
          /\ IF Len(e.res) = Len(out) /\ \A j \in 1..Len(out) : e.res[j].a = out[j].a /\ e.res[j].n = out[j].e - out[j].a
                                                                /\ e.res[j].wn = out[j].b - out[j].e /\ e.res[j].w = out[j].w
             THEN Count /\ TLCSet(4, TLCGet(4) + 1) ELSE Mismatch("words differ from the machine's")

TraceInit == Init /\ l = 2 /\ pend = -1 /\ TLCSet(1, 0) /\ TLCSet(2, 0) /\ TLCSet(3, 0) /\ TLCSet(4, 0) /\ TLCSet(5, 2)
TraceNext == ((T_Begin \/ Skip \/ T_AChar \/ T_UOpp \/ T_UWord \/ T_End) /\ l' = l + 1) \/ Silent
TraceSpec == TraceInit /\ [][TraceNext]_tvars
Accepted ==
  /\ PrintT(<<"STEPSTATS", TLCGet(1), TLCGet(2), TLCGet(3), TLCGet(4), Len(Rec) - 1>>)
  /\ TLCGet(5) = Len(Rec) + 1
=============================================================================
