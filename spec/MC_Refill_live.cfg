SPECIFICATION Spec
CONSTANTS
  W <- MCW
  IsAlnum <- MCAlnum
  IsWs <- MCWs
  Dev = {}
  Sel = {"C04", "C15"}
  Alphabet = {97, 32, 45, 62, 10, 13}
  MaxLen = 3
PROPERTY Terminates
CHECK_DEADLOCK FALSE
