SPECIFICATION Spec
CONSTANTS
  W <- MCW
  IsAlnum <- MCAlnum
  IsWs <- MCWs
  Dev = {}
  Sel = {"C06", "C07"}
  MaxN = 4
  MaxLW = 5
  Ws = {0, 1, 3}
  Wss = {0, 1}
  Pws = {0, 1}
  WidthLists <- MCWidthLists
INVARIANTS StepInv PropFrag Emit
CHECK_DEADLOCK FALSE
