------------------------------ MODULE TraceWrap ------------------------------
(***************************************************************************)
(* Step-level trace validation of wrap(): the events recorded through the  *)
(* crate's `verif-hooks` feature (one per loop iteration of the Rust code) *)
(* are replayed through the *actions of the step machine MC_Wrap*: every   *)
(* event must be explained by the machine action of its kind taken from    *)
(* the current machine state, and the numbers logged at the hook site      *)
(* (lines emitted so far, shortcut taken, line widths, fragment count,     *)
(* first-fit accumulator and decision, byte index and length of every      *)
(* re-assembled line) must equal the machine's variables.                  *)
(*                                                                         *)
(*   event      machine action                    logged fields bound to   *)
(*   w.begin    Begin (text taken from the event) o, text                  *)
(*   w.para     ParaStart (opps from the oracle)  Len(out), FastPath       *)
(*   w.slow     (state check, no action)          loc.lws, Len(loc.ws)     *)
(*   w.ff       FFStep                            ffi, LineW, ffacc, break *)
(*   w.ffend    FFEnd                                                      *)
(*   w.arr      arrangement of optimal-fit (checked to be a min-cost       *)
(*              partition instead of MC_Wrap.OptChoose, which enumerates   *)
(*              all 2^(n-1) arrangements)                                  *)
(*   w.emit     EmitStep                          idx, len, ws, penalty    *)
(*   w.emit0    EmitStep on an empty arrangement line                      *)
(*   w.pend     ParaEnd                                                    *)
(*   w.end      Return                            out = returned lines     *)
(*                                                                         *)
(* A step that cannot be explained prints a STEP line and puts the machine *)
(* into the state "rejected", in which the rest of the call is skipped, so *)
(* that the following calls are still validated.                           *)
(***************************************************************************)
EXTENDS MC_Wrap, IOUtils

Rec == ndJsonDeserialize(IOEnv.TRACE)
Tab == Rec[1]
TabN == Len(Tab.cp)
\* the harness writes the table sorted by code point: binary search (tables with thousands of random scalars)
RECURSIVE TabFind(_, _, _)
TabFind(c, lo, hi) == IF lo >= hi THEN lo
                      ELSE LET mid == (lo + hi) \div 2 IN IF Tab.cp[mid] < c THEN TabFind(c, mid + 1, hi) ELSE TabFind(c, lo, mid)
TabPos(c) == TabFind(c, 1, TabN)
UW == Tab.wmode = "uw"
TraceW(c) == IF UW THEN Tab.w[TabPos(c)] ELSE CutoffW(c)
TraceIsAlnum(c) == Tab.an[TabPos(c)] = 1
TraceIsWs(c) == Tab.ws[TabPos(c)] = 1

VARIABLES l, orc
tvars == <<vars, l, orc>>
e == Rec[l]
IsEv(k) == l <= Len(Rec) /\ Rec[l].ev = k

Reject(why) ==
  /\ PrintT(<<"STEP", l, Rec[l].ev, why>>)
  /\ TLCSet(2, TLCGet(2) + 1)
  /\ pc' = "rejected" /\ UNCHANGED <<text, o, prs, pk, out, pl, oppsv, loc, fault, orc>>
Count == TLCSet(1, TLCGet(1) + 1)

T_Begin ==
  /\ IsEv("w.begin")
  /\ text' = e.text /\ o' = e.o /\ orc' = e.paras /\ prs' = SplitEndingRanges(e.text, e.o.crlf)
  /\ pc' = "para" /\ pk' = 1 /\ out' = <<>> /\ pl' = <<>> /\ oppsv' = <<>> /\ loc' = NoLoc /\ fault' = "none"
  /\ TLCSet(3, TLCGet(3) + 1)

Skip == pc = "rejected" /\ l <= Len(Rec) /\ Rec[l].ev # "w.begin" /\ UNCHANGED <<vars, orc>>

\* ParaStart with the opportunity set the oracle gave for this paragraph
T_Para ==
  /\ IsEv("w.para") /\ pc # "rejected"
  /\ IF ~(pc = "para" /\ pk <= Len(prs) /\ pk <= Len(orc)) THEN Reject("no paragraph can start here")
     ELSE LET line == SubSeq(text, prs[pk][1], prs[pk][2])
              base == prs[pk][1] - 1
              S == IF o.sep = "uax" THEN ToSet(orc[pk].opps) ELSE {}
          IN IF e.nlines # Len(out) THEN Reject("lines emitted so far differ")
             ELSE IF e.fast # FastPath(line, o, Len(out)) THEN Reject("shortcut decision differs")
             ELSE /\ oppsv' = Append(oppsv, S)
                  /\ IF FastPath(line, o, Len(out))
                     THEN /\ out' = out \o FastLine(line, base, Len(out)) /\ pl' = Append(pl, 1) /\ pk' = pk + 1
                          /\ UNCHANGED <<pc, loc>>
                     ELSE /\ loc' = [NoLoc EXCEPT !.line = line, !.base = base, !.ws = ParaWords(line, o, S), !.lws = ParaLineWidths(o, Len(out))]
                          /\ pc' = (IF o.alg = "ff" THEN "ff" ELSE "opt")
                          /\ UNCHANGED <<out, pl, pk>>
                  /\ UNCHANGED <<text, o, prs, fault, orc>> /\ Count

T_Slow ==
  /\ IsEv("w.slow") /\ pc # "rejected"
  /\ IF pc \in {"ff", "opt"} /\ loc.lws = <<e.lw0, e.lw1>> /\ Len(loc.ws) = e.nfrags
     THEN UNCHANGED <<vars, orc>> /\ Count
     ELSE Reject("line widths or fragment count differ")

T_FF ==
  /\ IsEv("w.ff") /\ pc # "rejected"
  /\ IF ~(pc = "ff" /\ loc.ffi <= Len(loc.ws)) THEN Reject("first-fit loop is not at a fragment")
     ELSE LET f == Frag(loc.ws[loc.ffi]) lw == LineW(loc.lws, Len(loc.arr)) IN
          IF e.i # loc.ffi - 1 \/ e.lw # lw \/ e.acc # loc.ffacc \/ e.nl # Len(loc.arr) \/ e.brk # FFBreaks(loc.ffacc, f, lw, loc.ffi, loc.ffstart)
          THEN Reject("first-fit state or decision differs")
          ELSE FFStep /\ UNCHANGED orc /\ Count
T_FFEnd ==
  /\ IsEv("w.ffend") /\ pc # "rejected"
  /\ IF pc = "ff" /\ loc.ffi > Len(loc.ws) THEN FFEnd /\ UNCHANGED orc /\ Count ELSE Reject("first-fit loop cannot end here")

\* optimal-fit: the arrangement is read off the emitted lines; it must be a minimum-cost partition
ArrOfLens(lens) ==
  LET starts == PrefixSumsAcc(lens, 1, <<0>>) IN
  [k \in 1..Len(lens) |-> IF lens[k] = 0 THEN <<1, 0>> ELSE <<starts[k] + 1, starts[k + 1]>>]
T_Arr ==
  /\ IsEv("w.arr") /\ pc # "rejected"
  /\ IF pc # "opt" THEN Reject("no optimal-fit arrangement expected")
     ELSE LET arr == ArrOfLens(e.lens) fr == Frags(loc.ws) IN
          IF ~IsPartition(arr, Len(fr)) THEN Reject("arrangement is not a partition of the fragments")
          ELSE IF Len(fr) > 0 /\ CostExact(fr, loc.lws, o.pen) /\ PenaltyOk(fr)
                  /\ CostOfArr(fr, loc.lws, o.pen, arr) # MinCostDP(fr, loc.lws, o.pen)
               THEN Reject("arrangement is not of minimum cost")
               ELSE /\ loc' = [loc EXCEPT !.arr = arr] /\ pc' = "emit"
                    /\ UNCHANGED <<text, o, prs, pk, out, pl, oppsv, fault, orc>> /\ Count

T_Emit ==
  /\ IsEv("w.emit") /\ pc # "rejected"
  /\ IF ~(pc = "emit" /\ loc.ek <= Len(loc.arr) /\ loc.arr[loc.ek][2] >= loc.arr[loc.ek][1]) THEN Reject("no non-empty line to emit")
     ELSE LET lo == loc.arr[loc.ek][1] hi == loc.arr[loc.ek][2] last == loc.ws[hi]
              len == SumBytes(loc.line, loc.ws, lo, hi, 0) - WsBytes(loc.line, last)
          IN IF e.idx # loc.idx \/ e.len # len \/ e.ws # WsBytes(loc.line, last) \/ e.pen # last.pen \/ e.nw # hi - lo + 1
             THEN Reject("idx / len / whitespace / penalty of the re-assembled line differ")
             ELSE EmitStep /\ UNCHANGED orc /\ Count
T_Emit0 ==
  /\ IsEv("w.emit0") /\ pc # "rejected"
  /\ IF pc = "emit" /\ loc.ek <= Len(loc.arr) /\ loc.arr[loc.ek][2] < loc.arr[loc.ek][1]
     THEN EmitStep /\ UNCHANGED orc /\ Count ELSE Reject("no empty line to emit")
T_PEnd ==
  /\ IsEv("w.pend") /\ pc # "rejected"
  /\ IF pc = "emit" /\ loc.ek > Len(loc.arr) THEN ParaEnd /\ UNCHANGED orc /\ Count ELSE Reject("paragraph cannot end here")
\* the pointer of an empty line carries no information (an empty &str may point anywhere)
NormBp(str, bp) == IF Len(str) = 0 THEN 0 ELSE bp
T_End ==
  /\ IsEv("w.end") /\ pc # "rejected"
  /\ IF e.status # "ok" THEN Reject("wrap panicked")
     ELSE IF ~(pc = "para" /\ pk > Len(prs)) THEN Reject("wrap returned before all paragraphs were done")
     ELSE IF [x \in 1..Len(out) |-> [s |-> out[x].s, bp |-> NormBp(out[x].s, out[x].bp)]]
              # [x \in 1..Len(e.lines) |-> [s |-> e.lines[x].s, bp |-> NormBp(e.lines[x].s, e.lines[x].bp)]]
          THEN Reject("returned lines (text or Cow kind) differ from the machine's output")
          ELSE Return /\ UNCHANGED orc /\ Count /\ TLCSet(4, TLCGet(4) + 1)

TraceInit == Init /\ l = 2 /\ orc = <<>> /\ TLCSet(1, 0) /\ TLCSet(2, 0) /\ TLCSet(3, 0) /\ TLCSet(4, 0)
TraceNext == (T_Begin \/ Skip \/ T_Para \/ T_Slow \/ T_FF \/ T_FFEnd \/ T_Arr \/ T_Emit \/ T_Emit0 \/ T_PEnd \/ T_End) /\ l' = l + 1
TraceSpec == TraceInit /\ [][TraceNext]_tvars

\* registers: 1 = steps explained, 2 = steps rejected, 3 = calls, 4 = calls fully explained
Accepted ==
  /\ PrintT(<<"STEPSTATS", TLCGet(1), TLCGet(2), TLCGet(3), TLCGet(4), Len(Rec) - 1>>)
  /\ TLCGet("stats").diameter = Len(Rec)
=============================================================================
