------------------------------ MODULE MC_Inplace -----------------------------
(***************************************************************************)
(* Bounded model of fill_inplace (fill.rs:120-153): for every paragraph    *)
(* the words of the ASCII separator are arranged by first-fit (operators); *)
(* the machine then walks the lines of the arrangement one per step with   *)
(* the *byte* offsets `offset` / `line_offset`, pushes `line_offset - 1`   *)
(* (fault on underflow or for the empty arrangement's len() - 1), and      *)
(* finally overwrites the bytes (fault if an index is out of range or hits *)
(* a non-space byte, which would break UTF-8 or change the text).          *)
(* At `done`: no fault (C04), Judge_c17.                                   *)
(***************************************************************************)
EXTENDS PropsAll, MCChars, Json

CONSTANTS Alphabet, MaxLen, Widths

VARIABLES text, pc, width, prs, pk, offset, lineoff, ws, arr, ak, indices, res, fault
vars == <<text, pc, width, prs, pk, offset, lineoff, ws, arr, ak, indices, res, fault>>

Init == /\ text = <<>> /\ pc = "type" /\ width = 0 /\ prs = <<>> /\ pk = 1 /\ offset = 0 /\ lineoff = 0 /\ ws = <<>> /\ arr = <<>> /\ ak = 1
        /\ indices = <<>> /\ res = <<>> /\ fault = "none"
Type(c) == pc = "type" /\ Len(text) < MaxLen /\ text' = Append(text, c) /\ UNCHANGED <<pc, width, prs, pk, offset, lineoff, ws, arr, ak, indices, res, fault>>
Begin(w) == pc = "type" /\ width' = w /\ prs' = SplitCharRanges(text, LF) /\ pc' = "para" /\ UNCHANGED <<text, pk, offset, lineoff, ws, arr, ak, indices, res, fault>>
ParaStart ==
  /\ pc = "para" /\ pk <= Len(prs)
  /\ LET line == SubSeq(text, prs[pk][1], prs[pk][2]) words == AsciiWordsOp(line) IN
     /\ ws' = words /\ arr' = FirstFit(Frags(words), <<width>>) /\ lineoff' = offset /\ ak' = 1
     /\ IF Len(arr') = 0 THEN fault' = "fill.rs:134 len() - 1" /\ pc' = "done" ELSE pc' = "lines" /\ UNCHANGED fault
  /\ UNCHANGED <<text, width, prs, pk, offset, indices, res>>
\* for words in &wrapped_words[..wrapped_words.len() - 1]
LineStep ==
  /\ pc = "lines"
  /\ LET line == SubSeq(text, prs[pk][1], prs[pk][2]) bo == BOff(line) IN
     IF ak > Len(arr) - 1
     THEN /\ offset' = offset + ByteLen(line) + 1 /\ pk' = pk + 1 /\ pc' = "para" /\ UNCHANGED <<lineoff, ak, indices, fault>>
     ELSE LET lo == arr[ak][1] hi == arr[ak][2]
              linelen == IF hi < lo THEN 0 ELSE bo[ws[hi].b] - bo[ws[lo].a]
              lo2 == lineoff + linelen
          IN IF lo2 = 0 THEN fault' = "fill.rs:142 line_offset - 1" /\ pc' = "done" /\ UNCHANGED <<lineoff, ak, indices, offset, pk>>
             ELSE /\ lineoff' = lo2 /\ indices' = Append(indices, lo2 - 1) /\ ak' = ak + 1
                  /\ UNCHANGED <<offset, pk, pc, fault>>
  /\ UNCHANGED <<text, width, prs, ws, arr, res>>
\* bytes[idx] = b'\n' for every index, then String::from_utf8(bytes).unwrap(): one walk over the text with the running
\* byte offset; an index that is not the offset of a one-byte character is out of range or breaks UTF-8 (fault)
RECURSIVE PatchWalk(_, _, _, _, _, _)
PatchWalk(t, i, b, idx, acc, hits) ==
  IF i > Len(t) THEN [res |-> acc, hits |-> hits]
  ELSE LET u == Utf8Len(t[i]) IN
       IF b \in idx /\ u = 1 THEN PatchWalk(t, i + 1, b + u, idx, Append(acc, LF), hits + 1)
       ELSE PatchWalk(t, i + 1, b + u, idx, Append(acc, t[i]), hits)
Patch ==
  /\ pc = "para" /\ pk > Len(prs)
  /\ LET idx == {indices[x] : x \in 1..Len(indices)}
         pw == PatchWalk(text, 1, 0, idx, <<>>, 0)
     IN IF pw.hits # Cardinality(idx)
        THEN fault' = "fill.rs:150 index out of range / from_utf8" /\ UNCHANGED res
        ELSE res' = pw.res /\ UNCHANGED fault
  /\ pc' = "done" /\ UNCHANGED <<text, width, prs, pk, offset, lineoff, ws, arr, ak, indices>>
Next == (\E c \in Alphabet : Type(c)) \/ (\E w \in Widths : Begin(w)) \/ ParaStart \/ LineStep \/ Patch
Spec == Init /\ [][Next]_vars /\ WF_vars(ParaStart \/ LineStep \/ Patch)

NoFault == fault = "none"
\* offset is the byte offset of the current paragraph; every index pushed so far points at a ' '
OffsetInv == pc \in {"para", "lines"} /\ pk <= Len(prs) => offset = BOff(text)[prs[pk][1]]
IndexInv == \A x \in 1..Len(indices) : \E i \in 1..Len(text) : BOff(text)[i] = indices[x] /\ text[i] = SP
IndicesIncrease == \A x \in 1..(Len(indices) - 1) : indices[x] < indices[x + 1]
Ev == [ev |-> "c17", text |-> text, width |-> width, res |-> res, hk |-> [x \in 1..Len(indices) |-> <<0, indices[x] + 1>>],
       wl |-> LineStrings(WrapFF(text, InplaceOpts(width), [j \in 1..Len(SplitCharRanges(text, LF)) |-> {}])),
       status |-> (IF fault = "none" THEN "ok" ELSE "panic")]
AllOk(cs) == \A x \in 1..Len(cs) : cs[x].ok \/ (PrintT(<<"FAILED", cs[x].p, cs[x].c, cs[x].r>>) /\ FALSE)
PropInplace == pc = "done" => AllOk(Judge_c17(Ev))
\* once a call has begun it returns (checked under weak fairness of the step actions: the algorithms terminate)
Terminates == (pc # "type") ~> (pc = "done")
Emit == pc = "done" => PrintT(<<"REPLAY", ToJson([k |-> "c17", text |-> text, width |-> width])>>)
=============================================================================
