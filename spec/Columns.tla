------------------------------- MODULE Columns -------------------------------
(***************************************************************************)
(* wrap_columns (columns.rs): column width computation and the             *)
(* column-major layout with padding; the padding subtraction saturates     *)
(* (a line wider than its column protrudes).                               *)
(***************************************************************************)
EXTENDS Ansi

InnerWidth(width, cols, lg, mg, rg) == SatSub(SatSub(SatSub(width, DW(lg)), DW(rg)), DW(mg) * (cols - 1))
ColumnWidth(width, cols, lg, mg, rg) == Max2(InnerWidth(width, cols, lg, mg, rg) \div cols, 1)
LinesPerColumn(n, cols) == (n \div cols) + (IF n % cols > 0 THEN 1 ELSE 0)

Cell(wl, idx, cw) ==
  IF idx <= Len(wl)
  THEN wl[idx] \o Repeat(SP, (IF HasDev("pinned_padding_unchecked_sub") THEN cw - DW(wl[idx]) ELSE SatSub(cw, DW(wl[idx]))))
  ELSE Repeat(SP, cw)

RECURSIVE RowAcc(_, _, _, _, _, _, _, _)
RowAcc(wl, r, lpc, cols, cw, mg, c, acc) ==
  IF c > cols THEN acc
  ELSE RowAcc(wl, r, lpc, cols, cw, mg, c + 1, acc \o Cell(wl, r + (c - 1) * lpc, cw) \o (IF c < cols THEN mg ELSE <<>>))
\* row r (1-based) with `rem` extra spaces after the last column
Row(wl, r, lpc, cols, cw, lg, mg, rg, rem) == lg \o RowAcc(wl, r, lpc, cols, cw, mg, 1, <<>>) \o Repeat(SP, rem) \o rg

ColumnsOp(wl, width, cols, lg, mg, rg) ==
  LET inner == InnerWidth(width, cols, lg, mg, rg)
      cw == Max2(inner \div cols, 1)
      lpc == LinesPerColumn(Len(wl), cols)
  IN [r \in 1..lpc |-> Row(wl, r, lpc, cols, cw, lg, mg, rg, inner % cw)]
=============================================================================
