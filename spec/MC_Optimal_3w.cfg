SPECIFICATION Spec
CONSTANTS
  W <- MCW
  IsAlnum <- MCAlnum
  IsWs <- MCWs
  Dev = {}
  Sel = {"C03", "C06"}
  MaxN = 4
  Ws = {0, 1, 2, 4}
  Wss = {0, 1}
  Pws = {0}
  MaxLW = 3
  WidthLists <- MCWidthLists3
  PenSets <- MCPens
INVARIANTS DPInv Shape Optimal PropFrag Emit
CHECK_DEADLOCK FALSE
