------------------------------ MODULE MC_Optimal -----------------------------
(***************************************************************************)
(* Bounded model of wrap_optimal_fit (wrap_algorithms/optimal_fit.rs).     *)
(*                                                                         *)
(* The code hands a cost closure to smawk::online_column_minima; what it   *)
(* relies on is that minima[j] = (argmin_i, min_i) of                      *)
(*      minima[i].cost + cost of the line holding fragments i+1..j         *)
(* and that the line number of a line starting at fragment i is found by   *)
(* following the chain of argmins (the LineNumbers cache,                  *)
(* optimal_fit.rs:160-182).  This machine has one action per column j:     *)
(* it computes the column minimum with the *path-dependent* line number    *)
(* exactly like the closure, choosing nondeterministically among ties (so  *)
(* every tie-breaking smawk could make is explored), then back-tracks      *)
(* (optimal_fit.rs:376-388) one line per step.                             *)
(*                                                                         *)
(* Checked: C06 partition shape for every reachable back-pointer vector;   *)
(* C03: with at most two line widths (and penalty widths not exceeding the *)
(* next fragment) the cost of the result is the minimum over all           *)
(* 2^(n-1) arrangements, hence the path-dependent line number is           *)
(* harmless; never more than first-fit.  The configuration                 *)
(* MC_Optimal_3w.cfg (three widths) is expected to *violate* Optimal and   *)
(* is part of the specification's self-test.                               *)
(***************************************************************************)
EXTENDS PropsAll, MCChars, Json

CONSTANTS MaxN, Ws, Wss, Pws, WidthLists, MaxLW, PenSets

MCWidthLists12 == {<<a>> : a \in 0..MaxLW} \cup {<<a, b>> : a \in 0..MaxLW, b \in 0..MaxLW}
MCWidthLists3 == {<<a, b, c>> : a \in 0..MaxLW, b \in 0..MaxLW, c \in 0..MaxLW}
MCPens == { DefaultPen,
            [nline |-> 0, over |-> 1, frac |-> 0, short |-> 3, hyph |-> 2],
            [nline |-> 2, over |-> 10, frac |-> 2, short |-> 1, hyph |-> 0],
            [nline |-> 1, over |-> 0, frac |-> 4, short |-> 25, hyph |-> 25] }

VARIABLES fs, pc, lws, pen, j, best, bp, ln, pos, lines
vars == <<fs, pc, lws, pen, j, best, bp, ln, pos, lines>>

n == Len(fs)
Init == /\ fs = <<>> /\ pc = "build" /\ lws = <<>> /\ pen = DefaultPen /\ j = 1
        /\ best = <<0>> /\ bp = <<0>> /\ ln = <<0>> /\ pos = 0 /\ lines = <<>>
AddFrag(w, ws, pw) == pc = "build" /\ Len(fs) < MaxN /\ fs' = Append(fs, [w |-> w, ws |-> ws, pw |-> pw])
                      /\ UNCHANGED <<pc, lws, pen, j, best, bp, ln, pos, lines>>
Begin(l, p) == /\ pc = "build" /\ lws' = l /\ pen' = p
               /\ pc' = (IF n = 0 THEN "back" ELSE "dp") /\ pos' = n
               /\ UNCHANGED <<fs, j, best, bp, ln, lines>>
\* column j: best[i+1] = cost of the best arrangement of the first i fragments, bp[i+1] its last break,
\* ln[i+1] = number of lines in it (= line number of a line that starts at fragment i+1)
ColumnCost(i) == best[i + 1] + LineCostOp(fs, PreSums(fs, 1, <<0>>), n, i, j,
                                         LineW(lws, IF HasDev("opt_line_number_by_fragment") THEN i ELSE ln[i + 1]), pen)
DPStep ==
  /\ pc = "dp" /\ j <= n
  /\ LET m == Min({ColumnCost(i) : i \in 0..(j - 1)}) IN
     \E i \in 0..(j - 1) :
        /\ ColumnCost(i) = m
        /\ best' = Append(best, m) /\ bp' = Append(bp, i) /\ ln' = Append(ln, ln[i + 1] + 1)
  /\ j' = j + 1 /\ UNCHANGED <<fs, pc, lws, pen, pos, lines>>
\* Not part of Next: what the code does when smawk's answer for a column is *not* a minimum.  smawk needs a totally
\* monotone matrix; a penalty width larger than the following fragment (or a third line width) breaks that, and
\* the code then simply continues with the row smawk reported.  The trace specification (TraceOptimal.tla) takes
\* this step only outside C03's precondition; inside it a non-minimal row is a rejected step.
DPFollow(i) ==
  /\ pc = "dp" /\ j <= n /\ i \in 0..(j - 1)
  /\ best' = Append(best, ColumnCost(i)) /\ bp' = Append(bp, i) /\ ln' = Append(ln, ln[i + 1] + 1)
  /\ j' = j + 1 /\ UNCHANGED <<fs, pc, lws, pen, pos, lines>>
DPEnd == pc = "dp" /\ j > n /\ pc' = "back" /\ UNCHANGED <<fs, lws, pen, j, best, bp, ln, pos, lines>>
\* loop { prev = minima[pos].0; lines.push(fragments[prev..pos]); pos = prev; if pos == 0 break }
BackStep ==
  /\ pc = "back"
  /\ LET prev == bp[pos + 1] IN
     /\ lines' = << <<prev + 1, pos>> >> \o lines
     /\ pos' = prev
     /\ pc' = (IF prev = 0 THEN "done" ELSE "back")
  /\ UNCHANGED <<fs, lws, pen, j, best, bp, ln>>
Next == (\E w \in Ws, ws \in Wss, pw \in Pws : AddFrag(w, ws, pw)) \/ (\E l \in WidthLists, p \in PenSets : Begin(l, p))
        \/ DPStep \/ DPEnd \/ BackStep
Spec == Init /\ [][Next]_vars /\ WF_vars(DPStep \/ DPEnd \/ BackStep)

DPInv == pc \in {"dp", "back", "done"} =>
  /\ Len(best) = Len(bp) /\ Len(bp) = Len(ln)
  /\ \A x \in 2..Len(bp) : bp[x] < x - 1 /\ bp[x] >= 0 /\ ln[x] = ln[bp[x] + 1] + 1
Shape == pc = "done" => IsPartition(lines, n)
Optimal == (pc = "done" /\ n > 0 /\ PenaltyOk(fs)) =>
              /\ CostOfArr(fs, lws, pen, lines) = MinCostX(fs, lws, pen)
              /\ CostOfArr(fs, lws, pen, lines) = MinCostDP(fs, lws, pen)
              /\ CostOfArr(fs, lws, pen, lines) = best[n + 1]
              /\ CostOfArr(fs, lws, pen, lines) <= CostOfArr(fs, lws, pen, FirstFit(fs, lws))
Ev == [ev |-> "frag", alg |-> "opt", n |-> n, fs |-> [x \in 1..n |-> <<fs[x].w, fs[x].ws, fs[x].pw>>], lws |-> lws,
       scale |-> 1, pen |-> pen, exact |-> TRUE, finite |-> TRUE, usz |-> TRUE, raw |-> "",
       shape |-> [x \in 1..Len(lines) |-> <<lines[x][1] - 1, lines[x][2] - lines[x][1] + 1>>], res |-> lines, status |-> "ok"]
AllOk(cs) == \A x \in 1..Len(cs) : cs[x].ok \/ (PrintT(<<"FAILED", cs[x].p, cs[x].c, cs[x].r>>) /\ FALSE)
PropFrag == pc = "done" => AllOk(Judge_frag(Ev))
\* once a call has begun it returns (checked under weak fairness of the step actions: the algorithms terminate)
Terminates == (pc # "build") ~> (pc = "done")
Emit == pc = "done" => PrintT(<<"REPLAY", ToJson([k |-> "frag", alg |-> "opt", fs |-> Ev.fs, lws |-> lws, scale |-> 1, pen |-> pen])>>)
=============================================================================
