------------------------------- MODULE Words --------------------------------
(***************************************************************************)
(* Word finding (word_separators.rs) and Word::from (core.rs:263-271).     *)
(*                                                                         *)
(* A word over a line s is a record                                        *)
(*    [a, e, b, pen, w]   word text = s[a..e),  whitespace = s[e..b),      *)
(*                        pen = length of the penalty string (0 or 1),     *)
(*                        w = cached display width                         *)
(* with 1-based character positions (b, e exclusive).                      *)
(*                                                                         *)
(* Both separators are given twice: declaratively as a set of cut          *)
(* positions (the start positions of all words but the first) and          *)
(* operationally as the loop of the Rust code.                             *)
(***************************************************************************)
EXTENDS Ansi, StdStr

\* Word::from(&s[a..b)) : the trailing run of ' ' is the whitespace part
MkWord(s, a, b) == LET e == TrimEndIdx(s, a, b, {SP})
                   IN [a |-> a, e |-> e, b |-> b, pen |-> 0, w |-> DW(SubSeq(s, a, e - 1))]

\* cut positions (start of a new word) -> words
WordsFromCuts(s, cuts) ==
  IF Len(s) = 0 THEN <<>> ELSE
  LET st == SetToSortSeq({1} \cup cuts, <) n == Len(st)
  IN [k \in 1..n |-> MkWord(s, st[k], IF k < n THEN st[k + 1] ELSE Len(s) + 1)]

CutsOfWords(ws) == {ws[k].a : k \in 2..Len(ws)}

(* ---------- ASCII separator ---------- *)
\* declarative (C11): exactly the positions where a space is followed by a non-space
AsciiCuts(s) == {i \in 2..Len(s) : s[i - 1] = SP /\ s[i] # SP}

\* operational: find_words_ascii_space (word_separators.rs:191-216), state (start, in_whitespace)
RECURSIVE AsciiScan(_, _, _, _, _)
AsciiScan(s, i, start, inws, acc) ==
  IF i > Len(s) THEN (IF start <= Len(s) THEN Append(acc, MkWord(s, start, Len(s) + 1)) ELSE acc)
  ELSE IF inws /\ s[i] # SP
       THEN AsciiScan(s, i + 1, i, (IF HasDev("ascii_inws_not_reset") THEN TRUE ELSE FALSE), Append(acc, MkWord(s, start, i)))
       ELSE AsciiScan(s, i + 1, start, s[i] = SP, acc)
AsciiWordsOp(s) == AsciiScan(s, 1, 1, FALSE, <<>>)

(* ---------- Unicode separator ---------- *)
\* opps = set of UAX #14 break opportunities of the *stripped* line, each given as the number of
\* visible characters before the break (so Len(StripSeq(s)) is the final, mandatory one).
\* They are an input: an oracle (unicode-linebreak) in traces, a free set in model checking.

\* The one fact about UAX #14 the specification assumes (rule LB7: no break before a space, except
\* directly after a character that forces a break: LB4/LB5); it is re-checked on every oracle answer
\* the harness logs.
HardBreaks == {10, 11, 12, 13, 133, 8232, 8233}
OppsSane(s, opps) ==
  LET st == StripSeq(s) IN
  \A x \in opps : x >= 0 /\ x <= Len(st) /\ ((x >= 1 /\ x < Len(st) /\ st[x + 1] = SP) => st[x] \in HardBreaks)
\* all admissible opportunity sets of a line (model checking: the oracle is a free input)
FreeOppSets(s) ==
  LET st == StripSeq(s) n == Len(st)
  IN {T \cup (IF n > 0 THEN {n} ELSE {}) : T \in SUBSET {x \in 1..(n - 1) : st[x + 1] # SP \/ st[x] \in HardBreaks}}

\* declarative (C11): all opportunities but the end of the line, minus those directly after
\* '-' or SHY
UaxKeptDecl(s, opps) ==
  LET st == StripSeq(s) IN {o \in opps : o >= 1 /\ o < Len(st) /\ st[o] # HY /\ st[o] # SHY}

\* operational: find_words_unicode_break_properties (word_separators.rs:243-305)
UaxUsedOp(s, opps) ==
  LET st == StripSeq(s)
      valid == {o \in opps : o >= 0 /\ o <= Len(st)}
      NotAfterHyphen(o) == o = 0 \/ (st[o] # HY /\ st[o] # SHY)
  IN IF HasDev("pinned_drop_last_opp_after_filter")
     THEN LET kept == {o \in valid : NotAfterHyphen(o)} IN IF kept = {} THEN {} ELSE kept \ {Max(kept)}
     ELSE LET nolast == IF valid = {} THEN {} ELSE valid \ {Max(valid)} IN {o \in nolast : NotAfterHyphen(o)}

\* idx_map.find: first position whose scanner pre-state is T and that has o visible characters before it
OrigOf(s, p, vc, o) == LET c == {i \in 1..Len(s) : p[i] = "T" /\ vc[i] = o} IN IF c = {} THEN 0 ELSE Min(c)

UaxCutsOp(s, opps) ==
  LET p == Pre(s) vc == VisCounts(s, p, 1, <<0>>)
  IN {OrigOf(s, p, vc, o) : o \in UaxUsedOp(s, opps)} \ {0, 1}

UaxWordsOp(s, opps) == WordsFromCuts(s, UaxCutsOp(s, opps))

\* sep: "ascii" | "uax" | "custom" (WordSeparator::Custom of the harness: `opps` is then the set of cut positions)
FindWords(s, sep, opps) ==
  IF sep = "uax" THEN UaxWordsOp(s, opps)
  ELSE IF sep = "custom" THEN WordsFromCuts(s, opps \cap (2..Len(s)))
  ELSE AsciiWordsOp(s)

(* ---------- structural facts about a word list (C11, shared with C12) ---------- *)
\* contiguous cover of the whole line
Contiguous(s, ws) ==
  IF Len(ws) = 0 THEN Len(s) = 0
  ELSE /\ ws[1].a = 1 /\ ws[Len(ws)].b = Len(s) + 1
       /\ \A k \in 1..Len(ws) : ws[k].a <= ws[k].e /\ ws[k].e <= ws[k].b
       /\ \A k \in 1..(Len(ws) - 1) : ws[k].b = ws[k + 1].a

WordWellShaped(s, wd) ==
  /\ AllEq(s, wd.e, wd.b, SP)                               \* whitespace is spaces only
  /\ (wd.e > wd.a => s[wd.e - 1] # SP)                      \* the word does not end in a space
  /\ wd.w = DW(SubSeq(s, wd.a, wd.e - 1))                   \* cached width
=============================================================================
