-------------------------------- MODULE Props --------------------------------
(***************************************************************************)
(* The listed properties as predicates over recorded call events, written  *)
(* once and used by the model-checking configurations (on the events the   *)
(* specification's own machines produce) and by trace validation (on the   *)
(* events recorded from the real crate).                                   *)
(*                                                                         *)
(* Each Judge_<kind>(e) returns a sequence of check records                *)
(*    [p |-> property id, c |-> "VERDICT" | "DRIFT" | "TOOL",              *)
(*     r |-> reason, ok |-> BOOLEAN]                                       *)
(* VERDICT  the event violates the property's own statement (only these    *)
(*          can raise an alarm)                                            *)
(* DRIFT    the event differs from what the operational model predicts     *)
(* TOOL     the harness's own oracle data is inconsistent with the         *)
(*          specification (never a verdict about textwrap)                 *)
(* Sel is the set of property ids to evaluate.                             *)
(***************************************************************************)
EXTENDS Wrap

CONSTANT Sel

Chk(p, c, r, ok) == [p |-> p, c |-> c, r |-> r, ok |-> ok]
On(p, checks) == IF p \in Sel THEN checks ELSE <<>>
Ok(e) == e.status = "ok"

(* ------------------------------------------------------------------------- *)
(* logged words -> word records                                              *)
(* ------------------------------------------------------------------------- *)
LWord(x) == [a |-> x.a, e |-> x.a + x.n, b |-> x.a + x.n + x.wn, pen |-> Len(x.pen), w |-> x.w]
LWords(xs) == [k \in 1..Len(xs) |-> LWord(xs[k])]
\* the harness's position bookkeeping agrees with the texts it logged
LWordConsistent(s, x) ==
  /\ x.a >= 1 /\ x.a + x.n - 1 <= Len(s) /\ SubSeq(s, x.a, x.a + x.n - 1) = x.t
  /\ Len(x.t) = x.n /\ Len(x.wt) = x.wn
  /\ (x.wn > 0 => (x.wa = x.a + x.n /\ SubSeq(s, x.wa, x.wa + x.wn - 1) = x.wt))
RECURSIVE ConcatWordsAcc(_, _, _)
ConcatWordsAcc(xs, k, acc) == IF k > Len(xs) THEN acc ELSE ConcatWordsAcc(xs, k + 1, acc \o xs[k].t \o xs[k].wt)
ConcatWords(xs) == ConcatWordsAcc(xs, 1, <<>>)

(* ------------------------------------------------------------------------- *)
(* C10  display_width                                                        *)
(* ------------------------------------------------------------------------- *)
Judge_dw(e) ==
  On("C04", << Chk("C04", "VERDICT", "display_width panicked", Ok(e)) >>) \o
  On("C10", IF ~Ok(e) THEN << Chk("C10", "VERDICT", "display_width panicked", FALSE) >> ELSE <<
    Chk("C10", "VERDICT", "display_width exceeds the byte length", e.res <= ByteLen(e.s)),
    Chk("C10", "VERDICT", "well-formed text: width is not the sum of the visible characters' widths",
        Parses(e.s) => e.res = DWDecl(e.s)),
    Chk("C10", "DRIFT", "display_width differs from the scanner model", e.res = DW(e.s)) >>)

ScalarOk(c, w, dw) == dw = (IF c = ESC THEN 0 ELSE w) /\ dw <= Utf8Len(c)
Judge_scalars(e, uw) ==
  On("C10", << Chk("C10", "VERDICT", "per-scalar width differs from the width table / exceeds UTF-8 length",
                   \A i \in 1..Len(e.cp) : ScalarOk(e.cp[i], (IF uw THEN e.wo[i] ELSE CutoffW(e.cp[i])), e.dw[i])) >>) \o
  On("C04", << Chk("C04", "VERDICT", "display_width panicked on a scalar", \A i \in 1..Len(e.cp) : e.dw[i] >= 0) >>)

Judge_dwrel(e) ==
  On("C10",
    IF e.kind = "concat" THEN <<
      Chk("C10", "TOOL", "concat relation: t # a \\o b", e.t = e.a \o e.b),
      Chk("C10", "VERDICT", "display_width is not additive over ESC-free strings",
          (~HasEsc(e.a) /\ ~HasEsc(e.b)) => e.rt = e.ra + e.rb) >>
    ELSE <<
      Chk("C10", "TOOL", "insert relation: t is not a with b inserted at pos",
          e.t = SubSeq(e.a, 1, e.pos) \o e.b \o SubSeq(e.a, e.pos + 1, Len(e.a))),
      Chk("C10", "VERDICT", "inserting a well-formed sequence at a character boundary changed the width",
          (Parses(e.a) /\ Parses(e.b) /\ StripDecl(e.b) = <<>> /\ Pre(e.a)[e.pos + 1] = "T") => e.rt = e.ra) >>)

(* ------------------------------------------------------------------------- *)
(* C11  word finding                                                         *)
(* ------------------------------------------------------------------------- *)
C11Shape(s, xs) ==
  LET ws == LWords(xs) IN
  /\ ConcatWords(xs) = s                                            \* lossless, byte for byte
  /\ Contiguous(s, ws)
  /\ \A k \in 1..Len(xs) : AllEq(xs[k].wt, 1, Len(xs[k].wt) + 1, SP)
  /\ \A k \in 1..Len(xs) : Len(xs[k].t) > 0 => xs[k].t[Len(xs[k].t)] # SP
  /\ \A k \in 1..Len(xs) : xs[k].w = DW(xs[k].t)
  /\ \A k \in 1..Len(xs) : Len(xs[k].pen) = 0

C11Uax(s, xs, opps) ==
  LET cuts == CutsOfWords(LWords(xs))
      p == Pre(s) vc == VisCounts(s, p, 1, <<0>>)
      want == UaxKeptDecl(s, opps)
  IN /\ \A c \in cuts : p[c] = "T"                                  \* no boundary inside an escape sequence
     /\ {vc[c] : c \in cuts} = want
     /\ Cardinality(cuts) = Cardinality(want)

Judge_words(e) ==
  LET opps == ToSet(e.orc.opps) IN
  On("C04", << Chk("C04", "VERDICT", "find_words panicked", Ok(e)) >>) \o
  On("C11", IF ~Ok(e) THEN << Chk("C11", "VERDICT", "find_words panicked", FALSE) >> ELSE <<
    Chk("C11", "TOOL", "harness stripper disagrees with StripSeq", e.sep = "uax" => e.orc.st = StripSeq(e.s)),
    Chk("C11", "TOOL", "oracle opportunities violate the assumed UAX#14 rule 'no break before a space'", e.sep = "uax" => OppsSane(e.s, opps)),
    Chk("C11", "TOOL", "word positions inconsistent with logged texts",
        \A k \in 1..Len(e.res) : LWordConsistent(e.s, e.res[k])),
    Chk("C11", "VERDICT", "words are not a lossless, well-shaped cover of the line", C11Shape(e.s, e.res)),
    Chk("C11", "VERDICT", "ASCII boundaries are not exactly space -> non-space",
        e.sep = "ascii" => CutsOfWords(LWords(e.res)) = AsciiCuts(e.s)),
    Chk("C11", "VERDICT", "Unicode boundaries are not exactly the filtered UAX#14 opportunities",
        (e.sep = "uax" /\ e.orc.st = StripSeq(e.s)) => C11Uax(e.s, e.res, opps)),
    Chk("C11", "DRIFT", "words differ from the operational model", LWords(e.res) = FindWords(e.s, e.sep, opps)) >>)

(* ------------------------------------------------------------------------- *)
(* C12  splitting and force-breaking                                         *)
(* ------------------------------------------------------------------------- *)
PiecesOfWord(ps, wd) ==
  SelectSeq(ps, LAMBDA p : IF wd.a = wd.e THEN p.a = wd.a /\ p.e = wd.a ELSE (wd.a <= p.a /\ p.e <= wd.e /\ p.a < wd.e))

SplitPtsFor(e, k, wd) ==
  IF e.splitter = "hyphen" THEN HyphenPts(e.s, wd)
  ELSE IF e.splitter = "none" THEN {}
  ELSE ToSet(e.pts[k])

RECURSIVE SplitAllPtsAcc(_, _, _, _)
SplitAllPtsAcc(e, ws, k, acc) ==
  IF k > Len(ws) THEN acc ELSE SplitAllPtsAcc(e, ws, k + 1, acc \o SplitWordAt(e.s, ws[k], SplitPtsFor(e, k, ws[k])))
SplitAllPts(e, ws) == SplitAllPtsAcc(e, ws, 1, <<>>)

Judge_split(e) ==
  On("C04", << Chk("C04", "VERDICT", "split_words panicked", Ok(e)) >>) \o
  On("C12", IF ~Ok(e) THEN << Chk("C12", "VERDICT", "split_words panicked", FALSE) >> ELSE
    LET ws == LWords(e.words) ps == LWords(e.res) IN <<
    Chk("C12", "TOOL", "positions inconsistent with logged texts",
        (\A k \in 1..Len(e.res) : LWordConsistent(e.s, e.res[k])) /\ (\A k \in 1..Len(e.words) : LWordConsistent(e.s, e.words[k]))),
    Chk("C12", "VERDICT", "hyphen splitter: split_points are not exactly 'after - between alphanumerics'",
        e.splitter = "hyphen" => \A k \in 1..Len(ws) : ToSet(e.pts[k]) = HyphenPts(e.s, ws[k])),
    Chk("C12", "VERDICT", "NoHyphenation returned split points", e.splitter = "none" => \A k \in 1..Len(ws) : e.pts[k] = <<>>),
    Chk("C12", "VERDICT", "pieces are not a lossless split at the split points with the penalty rule",
        \A k \in 1..Len(ws) : SplitOk(e.s, ws[k], SplitPtsFor(e, k, ws[k]), PiecesOfWord(ps, ws[k]))),
    Chk("C12", "VERDICT", "pieces outside any word / wrong count",
        Len(ps) = SumSeq([k \in 1..Len(ws) |-> Len(PiecesOfWord(ps, ws[k]))])),
    Chk("C12", "DRIFT", "pieces differ from the operational model",
        ps = SplitAllPts(e, ws)) >>)

Judge_break(e) ==
  On("C04", << Chk("C04", "VERDICT", "break_words panicked", Ok(e)) >>) \o
  On("C12", IF ~Ok(e) THEN << Chk("C12", "VERDICT", "break_words panicked", FALSE) >> ELSE
    LET ws == LWords(e.words) ps == LWords(e.res) IN <<
    Chk("C12", "TOOL", "positions inconsistent with logged texts",
        (\A k \in 1..Len(e.res) : LWordConsistent(e.s, e.res[k])) /\ (\A k \in 1..Len(e.words) : LWordConsistent(e.s, e.words[k]))),
    Chk("C12", "VERDICT", "words not wider than the limit must pass through unchanged",
        e.kind = "words" => \A k \in 1..Len(ws) : ws[k].w <= e.lim => PiecesOfWord(ps, ws[k]) = <<ws[k]>>),
    Chk("C12", "VERDICT", "forced break is not lossless / bounded / maximal / escape-safe / width-cached",
        \A k \in 1..Len(ws) : (ws[k].e > ws[k].a /\ (e.kind = "apart" \/ ws[k].w > e.lim))
                                => BreakOk(e.s, ws[k], e.lim, PiecesOfWord(ps, ws[k]))),
    Chk("C12", "VERDICT", "pieces outside any word / wrong count",
        Len(ps) = SumSeq([k \in 1..Len(ws) |-> Len(PiecesOfWord(ps, ws[k]))])),
    Chk("C12", "DRIFT", "pieces differ from the operational model",
        ps = (IF e.kind = "words" THEN BreakWords(e.s, ws, e.lim) ELSE BreakApartAll(e.s, ws, e.lim))) >>)
=============================================================================
