SPECIFICATION Spec
CONSTANTS
  W <- TraceW
  IsAlnum <- TraceIsAlnum
  IsWs <- TraceIsWs
  Dev = {}
  Sel = {"C04", "C10", "C11", "C12"}
POSTCONDITION Accepted
CHECK_DEADLOCK FALSE
