SPECIFICATION Spec
CONSTANTS
  W <- MCW
  IsAlnum <- MCAlnum
  IsWs <- MCWs
  Dev = {}
  Sel = {"C01", "C02", "C03", "C05", "C07", "C08"}
  Alphabet = {97, 32, 13, 10}
  MaxLen = 4
  Widths = {0, 1, 3, 5}
  IndentPairs <- MCIndentPairsSmall
  BWs = {TRUE, FALSE}
  Seps = {"ascii"}
  Splitters = {"hyphen"}
  Algs = {"ff", "opt"}
  Crlfs = {TRUE}
INVARIANTS NoFault EmitInv OrderedInv FFInv FragsContiguous PropWrap Emit
CHECK_DEADLOCK FALSE
