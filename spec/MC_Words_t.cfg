SPECIFICATION Spec
CONSTANTS
  W <- MCW
  IsAlnum <- MCAlnum
  IsWs <- MCWs
  Dev = {}
  Sel = {"C11"}
  Alphabet = {97, 32, 45, 173, 27, 91, 109, 20320}
  MaxLen = 5
INVARIANTS AsciiInv UaxInv PropC11 Emit
CHECK_DEADLOCK FALSE
