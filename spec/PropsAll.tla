------------------------------- MODULE PropsAll ------------------------------
EXTENDS PropsWrap
JudgeMore(e) ==
  CASE e.ev = "wrap" -> Judge_wrap(e)
    [] e.ev = "fill" -> Judge_fill(e)
    [] OTHER -> << Chk("TOOL", "TOOL", "unknown event kind", FALSE) >>
=============================================================================
