------------------------------- MODULE PropsAll ------------------------------
(* Dispatch of the event kinds that are not handled in Trace.tla itself. *)
EXTENDS PropsRel
JudgeMore(e) ==
  CASE e.ev = "wrap"   -> Judge_wrap(e)
    [] e.ev = "fill"   -> Judge_fill(e)
    [] e.ev = "frag"   -> Judge_frag(e)
    [] e.ev = "c05"    -> Judge_c05(e)
    [] e.ev = "c08"    -> Judge_c08(e)
    [] e.ev = "c09"    -> Judge_c09(e)
    [] e.ev = "c13"    -> Judge_c13(e)
    [] e.ev = "c14"    -> Judge_c14(e)
    [] e.ev = "c15"    -> Judge_c15(e)
    [] e.ev = "c16"    -> Judge_c16(e)
    [] e.ev = "c17"    -> Judge_c17(e)
    [] e.ev = "c18"    -> Judge_c18(e)
    [] e.ev = "c20"    -> Judge_c20(e)
    [] e.ev = "unfill" -> Judge_unfill(e)
    [] e.ev = "dedent" -> Judge_dedent(e)
    [] e.ev = "indent" -> Judge_indent(e)
    [] e.ev = "std"    -> Judge_std(e)
    [] e.ev = "call"   -> Judge_call(e)
    [] e.ev = "optseq" -> Judge_optseq(e)
    [] OTHER -> << Chk("TOOL", "TOOL", "unknown event kind", FALSE) >>
=============================================================================
