------------------------------- MODULE PropsAll ------------------------------
EXTENDS Props
JudgeMore(e) == << Chk("TOOL", "TOOL", "unknown event kind", FALSE) >>
=============================================================================
