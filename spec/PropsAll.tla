------------------------------- MODULE PropsAll ------------------------------
(* Dispatch of the event kinds that are not handled in Trace.tla itself. *)
EXTENDS PropsRel
JudgeMore(e) ==
  CASE e.ev = "wrap"   -> Judge_wrap(e)
    [] e.ev = "fill"   -> Judge_fill(e)
    [] e.ev = "frag"   -> Judge_frag(e)
    [] e.ev = "c05"    -> Judge_c05(e)
    [] e.ev = "c08"    -> Judge_c08(e)
    [] e.ev = "c09"    -> Judge_c09(e)
    [] e.ev = "c13"    -> Judge_c13(e)
    [] e.ev = "c14"    -> Judge_c14(e)
    [] e.ev = "c15"    -> Judge_c15(e)
    [] e.ev = "c16"    -> Judge_c16(e)
    [] e.ev = "c17"    -> Judge_c17(e)
    [] e.ev = "c18"    -> Judge_c18(e)
    [] e.ev = "c20"    -> Judge_c20(e)
    [] e.ev = "unfill" -> Judge_unfill(e)
    [] e.ev = "dedent" -> Judge_dedent(e)
    [] e.ev = "indent" -> Judge_indent(e)
    [] e.ev = "std"    -> Judge_std(e)
    [] e.ev = "call"   -> Judge_call(e)
    [] e.ev = "optseq" -> Judge_optseq(e)
    [] OTHER -> << Chk("TOOL", "TOOL", "unknown event kind", FALSE) >>

(* ---------- which recorded cases are non-trivial (evidence: distinct_nontrivial) ---------- *)
\* An event counts as non-trivial for the evidence only if, beyond being judged, it exercised the mechanism the
\* property is about: several lines / words / pieces / rows, an actual change of the text, a relation whose
\* precondition held.
NonTrivial(e) ==
  CASE e.ev = "wrap"   -> Ok(e) /\ Len(e.lines) >= 2
    [] e.ev = "fill"   -> Ok(e) /\ Len(e.wlines) >= 2
    [] e.ev = "frag"   -> e.status = "ok" /\ Len(e.shape) >= 2
    [] e.ev = "dw"     -> Ok(e) /\ (HasEsc(e.s) \/ \E i \in 1..Len(e.s) : e.s[i] >= 128)
    [] e.ev = "scalars" -> TRUE
    [] e.ev = "dwrel"  -> Len(e.a) > 0 /\ Len(e.b) > 0
    [] e.ev = "words"  -> Ok(e) /\ Len(e.res) >= 2
    [] e.ev = "split"  -> Ok(e) /\ Len(e.res) > Len(e.words)
    [] e.ev = "break"  -> Ok(e) /\ Len(e.res) > Len(e.words)
    [] e.ev = "c05"    -> Ok(e) /\ Len(e.slow) >= 1 /\ (Len(e.slow) >= 2 \/ ByteLen(e.text) > Len(e.text))
    [] e.ev = "c08"    -> Ok(e) /\ Len(e.l1) >= 2
    [] e.ev = "c09"    -> Ok(e) /\ Len(e.rab) >= 3
    [] e.ev = "c13"    -> C13Considered(e) /\ Len(e.rc) >= 2
    [] e.ev = "c14"    -> Ok(e) /\ C14Applies(e) /\ Contains(e.f1, LF)
    [] e.ev = "c15"    -> Ok(e) /\ C15Applies(e) /\ Contains(e.filled, LF)
    [] e.ev = "c16"    -> Ok(e) /\ Contains(e.filled, LF) /\ e.refilled # e.filled
    [] e.ev = "c17"    -> Ok(e) /\ e.res # e.text
    [] e.ev = "c18"    -> Ok(e) /\ e.d1 # e.s
    [] e.ev = "c20"    -> Ok(e) /\ Len(e.rows) >= 2
    [] e.ev = "unfill" -> Ok(e) /\ Len(Lines(e.s)) >= 2
    [] e.ev = "dedent" -> Ok(e) /\ e.res # e.s
    [] e.ev = "indent" -> Ok(e) /\ Contains(e.s, LF) /\ Len(e.p) > 0
    [] e.ev = "optseq" -> Len(e.ops) >= 1
    [] OTHER -> FALSE
=============================================================================
