SPECIFICATION Spec
CONSTANTS
  W <- MCW
  IsAlnum <- MCAlnum
  IsWs <- MCWs
  Dev = {}
  Alphabet = {97, 32, 20320, 27, 91, 93, 109, 7, 92}
  MaxLen = 3
  Seqs <- MCSeqs
PROPERTY Terminates
CHECK_DEADLOCK FALSE
