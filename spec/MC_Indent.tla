------------------------------ MODULE MC_Indent ------------------------------
(***************************************************************************)
(* Bounded model of dedent and indent (indentation.rs).                    *)
(* A session types a text; then                                            *)
(*  - dedent runs its three passes one line per step: `seed` (first line   *)
(*    with a non-whitespace character), `narrow` (shorten the prefix),     *)
(*    `output`;                                                            *)
(*  - indent runs its split_terminator loop one line per step, for a       *)
(*    prefix picked from IndPrefixes.                                         *)
(* At `done` the results are judged by Judge_dedent / Judge_indent /       *)
(* Judge_c18 (declarative margin definition, line structure, idempotence,  *)
(* dedent(indent(s,p)) = dedent(s)); the relational consequences use the   *)
(* operators DedentOp / IndentOp, which the machines are checked to        *)
(* refine.                                                                 *)
(***************************************************************************)
EXTENDS PropsAll, MCChars, Json

CONSTANTS Alphabet, MaxLen, IndPrefixes

MCPrefixSet == { <<>>, <<32>>, <<9>>, <<32, 9>>, <<35, 32>>, <<160>> }

VARIABLES s, pc, ls, k, prefix, dres, p, ik, ires
vars == <<s, pc, ls, k, prefix, dres, p, ik, ires>>

Init == s = <<>> /\ pc = "type" /\ ls = <<>> /\ k = 1 /\ prefix = <<>> /\ dres = <<>> /\ p = <<>> /\ ik = 1 /\ ires = <<>>
Type(c) == pc = "type" /\ Len(s) < MaxLen /\ s' = Append(s, c) /\ UNCHANGED <<pc, ls, k, prefix, dres, p, ik, ires>>
Begin(q) == pc = "type" /\ ls' = Lines(s) /\ p' = q /\ pc' = "seed" /\ UNCHANGED <<s, k, prefix, dres, ik, ires>>

\* pass 1: look for the first line that has anything but whitespace
Seed ==
  /\ pc = "seed"
  /\ IF k > Len(ls) THEN pc' = "output" /\ k' = 1 /\ UNCHANGED prefix
     ELSE LET wi == LeadWs(ls[k]) IN
          IF wi < Len(ls[k]) THEN prefix' = SubSeq(ls[k], 1, wi) /\ pc' = "narrow" /\ k' = k + 1
          ELSE k' = k + 1 /\ UNCHANGED <<prefix, pc>>
  /\ UNCHANGED <<s, ls, dres, p, ik, ires>>
\* pass 2: shorten the prefix
Narrow ==
  /\ pc = "narrow"
  /\ IF k > Len(ls) THEN pc' = "output" /\ k' = 1 /\ UNCHANGED prefix
     ELSE LET line == ls[k]
              d == LcpLen(line, prefix, 1)
              wi == IF d < Len(line) /\ d < Len(prefix) THEN d ELSE Len(line)
              consider == HasDev("pinned_blank_line_narrows_margin") \/ NonBlank(line)
          IN /\ prefix' = (IF consider /\ wi < Len(line) /\ wi < Len(prefix) THEN SubSeq(line, 1, wi) ELSE prefix)
             /\ k' = k + 1 /\ UNCHANGED pc
  /\ UNCHANGED <<s, ls, dres, p, ik, ires>>
\* pass 3: build the result
Output ==
  /\ pc = "output"
  /\ IF k > Len(ls)
     THEN /\ dres' = (IF EndsWith(dres, <<LF>>) /\ ~EndsWith(s, <<LF>>) THEN SubSeq(dres, 1, Len(dres) - 1) ELSE dres)
          /\ pc' = "indent" /\ UNCHANGED k
     ELSE /\ dres' = (IF StartsWith(ls[k], prefix) /\ NonBlank(ls[k]) THEN dres \o SubSeq(ls[k], Len(prefix) + 1, Len(ls[k])) ELSE dres) \o <<LF>>
          /\ k' = k + 1 /\ UNCHANGED pc
  /\ UNCHANGED <<s, ls, prefix, p, ik, ires>>
\* indent: for (idx, line) in s.split_terminator('\n').enumerate()
IndentStep ==
  /\ pc = "indent"
  /\ LET tl == SplitTerminator(s, LF) IN
     IF ik > Len(tl)
     THEN ires' = (IF EndsWith(s, <<LF>>) THEN Append(ires, LF) ELSE ires) /\ pc' = "done" /\ UNCHANGED ik
     ELSE /\ ires' = (IF ik > 1 THEN Append(ires, LF) ELSE ires)
                     \o (IF Len(TrimWs(tl[ik])) = 0 THEN (IF HasDev("indent_untrimmed_prefix") THEN p ELSE TrimEndWs(p)) ELSE p) \o tl[ik]
          /\ ik' = ik + 1 /\ UNCHANGED pc
  /\ UNCHANGED <<s, ls, k, prefix, dres, p>>
Next == (\E c \in Alphabet : Type(c)) \/ (\E q \in IndPrefixes : Begin(q)) \/ Seed \/ Narrow \/ Output \/ IndentStep
Spec == Init /\ [][Next]_vars /\ WF_vars(Seed \/ Narrow \/ Output \/ IndentStep)

\* the prefix is always a whitespace prefix of every non-blank line seen so far
PrefixInv == pc = "narrow" => (\A x \in 1..Len(prefix) : IsWs(prefix[x])) /\ \A x \in 1..(k - 1) : NonBlank(ls[x]) => StartsWith(ls[x], prefix)
EvD == [ev |-> "dedent", s |-> s, res |-> dres, hk |-> << <<ByteLen(prefix)>> >>, status |-> "ok"]
EvI == [ev |-> "indent", s |-> s, p |-> p, res |-> ires, status |-> "ok"]
EvR == [ev |-> "c18", s |-> s, p |-> p, ind |-> ires, d1 |-> dres, d2 |-> DedentOp(dres), d3 |-> DedentOp(ires), status |-> "ok"]
AllOk(cs) == \A x \in 1..Len(cs) : cs[x].ok \/ (PrintT(<<"FAILED", cs[x].p, cs[x].c, cs[x].r>>) /\ FALSE)
PropDedent == pc = "done" => AllOk(Judge_dedent(EvD))
PropIndent == pc = "done" => AllOk(Judge_indent(EvI))
PropRel == pc = "done" => AllOk(Judge_c18(EvR))
\* once a call has begun it returns (checked under weak fairness of the step actions: the algorithms terminate)
Terminates == (pc # "type") ~> (pc = "done")
Emit == pc = "done" => /\ PrintT(<<"REPLAY", ToJson([k |-> "c18", s |-> s, p |-> p])>>)
                       /\ PrintT(<<"REPLAY", ToJson([k |-> "indent", s |-> s, p |-> p])>>)
                       /\ PrintT(<<"REPLAY", ToJson([k |-> "dedent", s |-> s])>>)
=============================================================================
