SPECIFICATION Spec
CONSTANTS
  W <- MCW
  IsAlnum <- MCAlnum
  IsWs <- MCWs
  Dev = {}
  Alphabet = {97, 32, 20320, 27, 91, 93, 109, 7, 92}
  MaxLen = 4
  Seqs <- MCSeqs
INVARIANTS TypeOK StepInv Refines Bounded Declarative Additive InsertInvariant JoinLemma CharLemma Emit
CHECK_DEADLOCK FALSE
