------------------------------- MODULE MC_Break ------------------------------
(***************************************************************************)
(* Bounded model of word splitting and forced breaking (C12).              *)
(* A session types a word (no spaces), picks a splitter and a limit, then  *)
(*  - split_words is applied in one step (it is a pure function of the     *)
(*    split points), and                                                   *)
(*  - Word::break_apart (core.rs:286-325) runs one character per step      *)
(*    with the loop state (offset, width) and the escape scanner.          *)
(* At `done` both results are judged by Judge_split / Judge_break of       *)
(* Props.tla (declarative clauses + refinement of the operators).          *)
(***************************************************************************)
EXTENDS PropsAll, MCChars, Json

CONSTANTS Alphabet, MaxLen, Limits, Splitters

VARIABLES s, pc, lim, splitter, inpen, i, off, width, st, out, pieces, pts, sk, prev
vars == <<s, pc, lim, splitter, inpen, i, off, width, st, out, pieces, pts, sk, prev>>

\* the whole typed string as one word (it may end in spaces), carrying a penalty of its own when it is
\* itself a piece of an earlier split
Wd == [MkWord(s, 1, Len(s) + 1) EXCEPT !.pen = inpen]

Init == /\ s = <<>> /\ pc = "type" /\ lim = 0 /\ splitter = "none" /\ inpen = 0 /\ i = 1 /\ off = 1 /\ width = 0 /\ st = "T"
        /\ out = <<>> /\ pieces = <<>> /\ pts = <<>> /\ sk = 1 /\ prev = 1
Type(c) == pc = "type" /\ Len(s) < MaxLen /\ (c = SP => (Len(s) > 0)) /\ s' = Append(s, c)
           /\ UNCHANGED <<pc, lim, splitter, inpen, i, off, width, st, out, pieces, pts, sk, prev>>
Begin(l, sp, ip) ==
  /\ pc = "type" /\ (\A j \in 1..Len(s) : s[j] = SP => \A j2 \in j..Len(s) : s[j2] = SP)    \* spaces only at the end
  /\ lim' = l /\ splitter' = sp /\ inpen' = ip
  /\ pts' = LET wd == [MkWord(s, 1, Len(s) + 1) EXCEPT !.pen = ip] IN SetToSortSeq(SplitPts(s, wd, sp), <)
  /\ pieces' = <<>> /\ sk' = 1 /\ prev' = 1
  /\ pc' = (IF Len(s) = 0 THEN "break" ELSE "split") /\ UNCHANGED <<s, i, off, width, st, out>>
\* split_words (word_splitters.rs:176-205), one split point per step: state (prev, remaining split points)
SplitStep ==
  /\ pc = "split" /\ sk <= Len(pts)
  /\ LET idx == pts[sk] IN
     /\ pieces' = Append(pieces, [a |-> prev, e |-> idx, b |-> idx,
                                   pen |-> (IF HasDev("split_penalty_always") THEN 1 ELSE IF idx > 1 /\ s[idx - 1] = HY THEN 0 ELSE 1),
                                   w |-> DW(SubSeq(s, prev, idx - 1))])
     /\ prev' = idx /\ sk' = sk + 1
  /\ UNCHANGED <<s, pc, lim, splitter, inpen, i, off, width, st, out, pts>>
\* `if prev < word.word.len() || prev == 0` : the last piece carries the original whitespace and penalty
SplitEnd ==
  /\ pc = "split" /\ sk > Len(pts)
  /\ pieces' = (IF prev < Wd.e \/ prev = Wd.a
                THEN Append(pieces, [a |-> prev, e |-> Wd.e, b |-> Wd.b, pen |-> (IF HasDev("split_drops_input_penalty") THEN 0 ELSE Wd.pen),
                                     w |-> DW(SubSeq(s, prev, Wd.e - 1))])
                ELSE pieces)
  /\ pc' = "break" /\ UNCHANGED <<s, lim, splitter, inpen, i, off, width, st, out, pts, sk, prev>>
\* one iteration of `while let Some((idx, ch)) = char_indices.next()`
BreakStep ==
  /\ pc = "break" /\ i < Wd.e
  /\ st' = ScanNext(st, s[i])
  /\ IF ~(st = "T" /\ s[i] # ESC) THEN UNCHANGED <<off, width, out>>
     ELSE IF (HasDev("break_no_width_guard") \/ width > 0) /\ width + W(s[i]) > lim
          THEN /\ out' = Append(out, [a |-> off, e |-> i, b |-> i, pen |-> 0, w |-> width])
               /\ off' = i /\ width' = W(s[i])
          ELSE width' = width + W(s[i]) /\ UNCHANGED <<off, out>>
  /\ i' = i + 1 /\ UNCHANGED <<s, pc, lim, splitter, inpen, pieces, pts, sk, prev>>
BreakEnd ==
  /\ pc = "break" /\ i >= Wd.e
  /\ out' = (IF off < Wd.e THEN Append(out, [a |-> off, e |-> Wd.e, b |-> Wd.b, pen |-> Wd.pen, w |-> width]) ELSE out)
  /\ pc' = "done" /\ UNCHANGED <<s, lim, splitter, inpen, i, off, width, st, pieces, pts, sk, prev>>
Next == (\E c \in Alphabet : Type(c)) \/ (\E l \in Limits, sp \in Splitters, ip \in {0, 1} : Begin(l, sp, ip)) \/ SplitStep \/ SplitEnd \/ BreakStep \/ BreakEnd
Spec == Init /\ [][Next]_vars /\ WF_vars(SplitStep \/ SplitEnd \/ BreakStep \/ BreakEnd)
\* once a call has begun it returns
Terminates == (pc # "type") ~> (pc = "done")

ToLogged(str, wd) ==
  [a |-> wd.a, n |-> wd.e - wd.a, wa |-> wd.e, wn |-> wd.b - wd.e, t |-> SubSeq(str, wd.a, wd.e - 1),
   wt |-> SubSeq(str, wd.e, wd.b - 1), pen |-> Repeat(HY, wd.pen), w |-> wd.w]
Logged(ws) == [j \in 1..Len(ws) |-> ToLogged(s, ws[j])]
WordList == IF Len(s) = 0 THEN <<>> ELSE <<Wd>>
EvBreak == [ev |-> "break", kind |-> "apart", s |-> s, lim |-> lim, words |-> Logged(WordList), res |-> Logged(out), status |-> "ok"]
EvSplit == [ev |-> "split", splitter |-> splitter, s |-> s, words |-> Logged(WordList),
            pts |-> (IF Len(s) = 0 THEN <<>> ELSE << SetToSortSeq(SplitPts(s, Wd, splitter), <) >>),
            res |-> Logged(IF Len(s) = 0 THEN <<>> ELSE pieces), status |-> "ok"]

AllOk(cs) == \A j \in 1..Len(cs) : cs[j].ok \/ (PrintT(<<"FAILED", cs[j].p, cs[j].c, cs[j].r>>) /\ FALSE)
BreakInv == pc = "break" => /\ off <= i /\ st = Pre(SubSeq(s, 1, Wd.e - 1))[i]
                            /\ width = DW(SubSeq(s, off, i - 1)) \/ st # "T"
\* the split loop refines the operator, and its pieces are contiguous while it runs
SplitRefines == pc \in {"break", "done"} /\ Len(s) > 0 => pieces = SplitWordAt(s, Wd, SplitPts(s, Wd, splitter))
SplitInv == pc = "split" => (Len(pieces) = 0 => prev = 1) /\ (Len(pieces) > 0 => pieces[Len(pieces)].e = prev)
PropBreak == pc = "done" => AllOk(Judge_break(EvBreak))
PropSplit == pc = "done" => AllOk(Judge_split(EvSplit))
Emit == pc = "done" => /\ PrintT(<<"REPLAY", ToJson([k |-> "break", kind |-> "apart", s |-> s, lim |-> lim])>>)
                       /\ PrintT(<<"REPLAY", ToJson([k |-> "split", splitter |-> splitter, pre |-> (IF inpen = 1 THEN "every2" ELSE "none"), s |-> s])>>)
=============================================================================
