SPECIFICATION Spec
CONSTANTS
  W <- MCW
  IsAlnum <- MCAlnum
  IsWs <- MCWs
  Dev = {}
  Sel = {}
  Alphabet = {97, 32, 45, 20320, 10}
  MaxLen = 3
  Widths = {0, 1, 2, 3, 4}
  IndentPairs <- MCIndentPairs
  BWs = {TRUE, FALSE}
  Splitters = {"none", "hyphen"}
INVARIANTS C05ii C08rel C09 C09crlf C13 C14 C15 C16 Emit
CHECK_DEADLOCK FALSE
