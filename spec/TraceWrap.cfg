SPECIFICATION TraceSpec
CONSTANTS
  W <- TraceW
  IsAlnum <- TraceIsAlnum
  IsWs <- TraceIsWs
  Dev = {}
  Sel = {}
  Alphabet = {}
  MaxLen = 0
  Widths = {}
  IndentPairs = {}
  BWs = {}
  Seps = {}
  Splitters = {}
  Algs = {}
  Crlfs = {}
POSTCONDITION Accepted
CHECK_DEADLOCK FALSE
