------------------------------ MODULE FirstFit -------------------------------
(***************************************************************************)
(* wrap_first_fit (wrap_algorithms.rs:336-357) over abstract fragments     *)
(* [w, ws, pw] (width, whitespace width, penalty width).  Numbers are      *)
(* integers; dyadic fractions k/8 are represented scaled by 8 (the         *)
(* comparison is linear, so scaling is exact).                             *)
(*                                                                         *)
(* An arrangement is a sequence of <<first, last>> fragment index pairs    *)
(* (1-based, inclusive); <<1, 0>> is the single empty line of an empty     *)
(* input.                                                                  *)
(***************************************************************************)
EXTENDS Chars

\* line k (0-based) uses the k-th listed width, the last one repeats, 0 for the empty list
LineW(lws, k) == IF Len(lws) = 0 THEN 0 ELSE IF k + 1 <= Len(lws) THEN lws[k + 1] ELSE lws[Len(lws)]

(* ---------- operational: the loop, state (i, start, acc, lines) ---------- *)
FFBreaks(acc, f, lw, i, start) ==
  IF HasDev("ff_ge") THEN acc + f.w + f.pw >= lw /\ i > start
  ELSE IF HasDev("ff_no_penalty") THEN acc + f.w > lw /\ i > start
  ELSE IF HasDev("ff_no_nonempty_guard") THEN acc + f.w + f.pw > lw /\ i > 1
  ELSE acc + f.w + f.pw > lw /\ i > start

RECURSIVE FF(_, _, _, _, _, _)
FF(fs, lws, i, start, acc, lines) ==
  IF i > Len(fs) THEN Append(lines, <<start, Len(fs)>>)
  ELSE LET f == fs[i]
           lw == IF HasDev("ff_width_by_fragment") THEN LineW(lws, i - 1) ELSE LineW(lws, Len(lines))
       IN IF FFBreaks(acc, f, lw, i, start)
          THEN FF(fs, lws, i + 1, i, f.w + f.ws, Append(lines, <<start, i - 1>>))
          ELSE FF(fs, lws, i + 1, start, acc + f.w + f.ws, lines)
FirstFit(fs, lws) == FF(fs, lws, 1, 1, 0, <<>>)

(* ---------- shape (C06) ---------- *)
\* arr is an ordered partition of 1..n into non-empty contiguous runs (one empty run iff n = 0)
IsPartition(arr, n) ==
  IF n = 0 THEN arr = << <<1, 0>> >>
  ELSE /\ Len(arr) >= 1
       /\ arr[1][1] = 1 /\ arr[Len(arr)][2] = n
       /\ \A k \in 1..Len(arr) : arr[k][1] <= arr[k][2]
       /\ \A k \in 1..(Len(arr) - 1) : arr[k + 1][1] = arr[k][2] + 1

(* ---------- declarative (C07): greedy-maximal ---------- *)
\* accumulated width of fragments i..j-1 including their whitespace
RECURSIVE AccW(_, _, _, _)
AccW(fs, i, j, acc) == IF i >= j THEN acc ELSE AccW(fs, i + 1, j, acc + fs[i].w + fs[i].ws)

\* an arrangement is greedy iff for every line k (0-based) holding fragments first..last:
\*  - no fragment after the first one of the line overflows when added:  acc + w + pw <= width(k)
\*  - the first fragment of the next line would have overflowed line k
IsGreedy(fs, lws, arr) ==
  /\ IsPartition(arr, Len(fs))
  /\ \A k \in 1..Len(arr) :
       LET first == arr[k][1] last == arr[k][2] lw == LineW(lws, k - 1) IN
       /\ \A j \in (first + 1)..last : AccW(fs, first, j, 0) + fs[j].w + fs[j].pw <= lw
       /\ (k < Len(arr) => AccW(fs, first, last + 1, 0) + fs[last + 1].w + fs[last + 1].pw > lw)

\* width of a line made of fragments first..last, as rendered: no trailing whitespace, plus penalty
LineWidthOf(fs, first, last) == IF last < first THEN 0 ELSE AccW(fs, first, last + 1, 0) - fs[last].ws + fs[last].pw
=============================================================================
