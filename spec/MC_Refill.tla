------------------------------ MODULE MC_Refill ------------------------------
(***************************************************************************)
(* Bounded model of unfill (refill.rs:63-113) with its two independently   *)
(* written line iterators: loop 1 over text.lines() computes width and     *)
(* indents, loop 2 over NonEmptyLines (line_ending.rs) strips the indents  *)
(* with line[indent.len()..] -- an explicit fault if the indent is longer  *)
(* than the line (the #466 crash).  One line per step.                     *)
(* At `done`: the fault is unreachable (C04), the structural half of C15   *)
(* (Judge_unfill) and refinement of UnfillOp.                              *)
(***************************************************************************)
EXTENDS PropsAll, MCChars, Json

CONSTANTS Alphabet, MaxLen

VARIABLES s, pc, ls, k, width, ii, si, nel, text, det, fault
vars == <<s, pc, ls, k, width, ii, si, nel, text, det, fault>>

Init == /\ s = <<>> /\ pc = "type" /\ ls = <<>> /\ k = 1 /\ width = 0 /\ ii = <<>> /\ si = <<>> /\ nel = <<>>
        /\ text = <<>> /\ det = "none" /\ fault = "none"
Type(c) == pc = "type" /\ Len(s) < MaxLen /\ s' = Append(s, c) /\ UNCHANGED <<pc, ls, k, width, ii, si, nel, text, det, fault>>
Begin == pc = "type" /\ ls' = Lines(s) /\ nel' = NonEmptyLines(s) /\ pc' = "loop1" /\ UNCHANGED <<s, k, width, ii, si, text, det, fault>>
Loop1 ==
  /\ pc = "loop1"
  /\ IF k > Len(ls) THEN pc' = "loop2" /\ k' = 1 /\ UNCHANGED <<width, ii, si>>
     ELSE LET line == ls[k] prefix == LinePrefix(line) IN
          /\ width' = Max2(width, DW(line))
          /\ IF k = 1 THEN ii' = prefix /\ UNCHANGED si
             ELSE IF k = 2 THEN si' = prefix /\ UNCHANGED ii
             ELSE LET d == LcpLen(prefix, si, 1)
                      si1 == IF d < Len(prefix) /\ d < Len(si) THEN SubSeq(prefix, 1, d) ELSE si
                  IN si' = (IF Len(prefix) < Len(si1) /\ ~HasDev("unfill_no_shorter_prefix") THEN prefix ELSE si1) /\ UNCHANGED ii
          /\ k' = k + 1 /\ UNCHANGED pc
  /\ UNCHANGED <<s, ls, nel, text, det, fault>>
Loop2 ==
  /\ pc = "loop2"
  /\ IF k > Len(nel)
     THEN /\ LET en == IF det = "crlf" THEN <<CR, LF>> ELSE <<LF>> IN
             text' = (IF det # "none" /\ EndsWith(s, en) THEN text \o en ELSE text)
          /\ pc' = "done" /\ UNCHANGED <<k, det, fault>>
     ELSE LET line == SubSeq(s, nel[k][1], nel[k][2])
              ind == IF k = 1 THEN ii ELSE si
              en == nel[k][3]
          IN IF Len(ind) > Len(line) THEN fault' = "refill.rs:93/96 slice" /\ pc' = "done" /\ UNCHANGED <<text, det, k>>
             ELSE /\ text' = (IF k = 1 THEN text ELSE Append(text, SP)) \o SubSeq(line, Len(ind) + 1, Len(line))
                  /\ det' = (IF det = "none" /\ en # "none" THEN en ELSE IF det = "crlf" /\ en = "lf" THEN "lf" ELSE det)
                  /\ k' = k + 1 /\ UNCHANGED <<pc, fault>>
  /\ UNCHANGED <<s, ls, width, ii, si, nel>>
Next == (\E c \in Alphabet : Type(c)) \/ Begin \/ Loop1 \/ Loop2
Spec == Init /\ [][Next]_vars /\ WF_vars(Loop1 \/ Loop2)

NoFault == fault = "none"
\* the two iterators agree: the non-empty lines are exactly the non-empty items of lines(), in order
IteratorsAgree == pc \in {"loop1", "loop2", "done"} =>
   [x \in 1..Len(nel) |-> SubSeq(s, nel[x][1], nel[x][2])] = SelectSeq(ls, LAMBDA l : Len(l) > 0)
Ev == [ev |-> "unfill", s |-> s, text |-> text, ii |-> ii, si |-> si, width |-> width, crlf |-> (det = "crlf"),
       hk |-> << <<width, ByteLen(ii), ByteLen(si)>> >>,
       status |-> (IF fault = "none" THEN "ok" ELSE "panic")]
AllOk(cs) == \A x \in 1..Len(cs) : cs[x].ok \/ (PrintT(<<"FAILED", cs[x].p, cs[x].c, cs[x].r>>) /\ FALSE)
PropUnfill == pc = "done" => AllOk(Judge_unfill(Ev))
\* once a call has begun it returns (checked under weak fairness of the step actions: the algorithms terminate)
Terminates == (pc # "type") ~> (pc = "done")
Emit == pc = "done" => PrintT(<<"REPLAY", ToJson([k |-> "unfill", s |-> s])>>)
=============================================================================
