SPECIFICATION Spec
CONSTANTS
  W <- MCW
  IsAlnum <- MCAlnum
  IsWs <- MCWs
  Dev = {}
  Sel = {"C18", "C19"}
  Alphabet = {97, 32, 9, 10, 13}
  MaxLen = 3
  IndPrefixes <- MCPrefixSet
PROPERTY Terminates
CHECK_DEADLOCK FALSE
