------------------------------- MODULE Refill --------------------------------
(***************************************************************************)
(* unfill / refill (refill.rs) and the NonEmptyLines iterator              *)
(* (line_ending.rs:37-60).                                                 *)
(***************************************************************************)
EXTENDS Ansi, StdStr

PrefixChars == {32, 45, 43, 42, 62, 35, 47}       \* ' ', '-', '+', '*', '>', '#', '/'

\* NonEmptyLines: sequence of <<from, to, ending>> with ending in {"lf", "crlf", "none"}
RECURSIVE NELAcc(_, _, _)
NELAcc(s, start, acc) ==       \* start = 1-based position where the remaining text begins
  LET lfs == {i \in start..Len(s) : s[i] = LF} IN
  IF lfs = {} THEN (IF start > Len(s) THEN acc ELSE Append(acc, <<start, Len(s), "none">>))
  ELSE LET lf == Min(lfs) rel == lf - start IN      \* rel = byte offset of the LF within the remaining text (ASCII positions)
       IF rel = 0 \/ (rel = 1 /\ s[lf - 1] = CR) THEN NELAcc(s, lf + 1, acc)
       ELSE IF s[lf - 1] = CR THEN NELAcc(s, lf + 1, Append(acc, <<start, lf - 2, "crlf">>))
       ELSE NELAcc(s, lf + 1, Append(acc, <<start, lf - 1, "lf">>))
NonEmptyLines(s) == NELAcc(s, 1, <<>>)

LinePrefix(line) == SubSeq(line, 1, TrimStartIdx(line, 1, Len(line) + 1, PrefixChars) - 1)

\* loop 1 of unfill (refill.rs:63-86): state (width, ii, si)
RECURSIVE UnfillLoop1(_, _, _, _, _)
UnfillLoop1(ls, k, width, ii, si) ==
  IF k > Len(ls) THEN [width |-> width, ii |-> ii, si |-> si]
  ELSE LET line == ls[k] w == Max2(width, DW(line)) prefix == LinePrefix(line) IN
       IF k = 1 THEN UnfillLoop1(ls, k + 1, w, prefix, si)
       ELSE IF k = 2 THEN UnfillLoop1(ls, k + 1, w, ii, prefix)
       ELSE LET d == LcpLen(prefix, si, 1)
                si1 == IF d < Len(prefix) /\ d < Len(si) THEN SubSeq(prefix, 1, d) ELSE si
                si2 == IF Len(prefix) < Len(si1) THEN prefix ELSE si1
            IN UnfillLoop1(ls, k + 1, w, ii, si2)

\* loop 2 (refill.rs:88-106): joined text and detected line ending; fault if a line is shorter than the indent
RECURSIVE UnfillLoop2(_, _, _, _, _, _, _)
UnfillLoop2(s, nel, k, ii, si, acc, det) ==
  IF k > Len(nel) THEN [text |-> acc, det |-> det, fault |-> FALSE]
  ELSE LET line == SubSeq(s, nel[k][1], nel[k][2])
           ind == IF k = 1 THEN ii ELSE si
           en == nel[k][3]
           det2 == IF det = "none" /\ en # "none" THEN en
                   ELSE IF det = "crlf" /\ en = "lf" THEN "lf" ELSE det
       IN IF Len(ind) > Len(line) THEN [text |-> acc, det |-> det, fault |-> TRUE]
          ELSE UnfillLoop2(s, nel, k + 1, ii, si,
                           (IF k = 1 THEN acc ELSE Append(acc, SP)) \o SubSeq(line, Len(ind) + 1, Len(line)), det2)

UnfillOp(s) ==
  LET l1 == UnfillLoop1(Lines(s), 1, 0, <<>>, <<>>)
      l2 == UnfillLoop2(s, NonEmptyLines(s), 1, l1.ii, l1.si, <<>>, "none")
      en == IF l2.det = "crlf" THEN <<CR, LF>> ELSE <<LF>>
      text == IF l2.det # "none" /\ EndsWith(s, en) THEN l2.text \o en ELSE l2.text
  IN [text |-> text, ii |-> l1.ii, si |-> l1.si, width |-> l1.width, crlf |-> l2.det = "crlf", fault |-> l2.fault]

(* ---------- declarative pieces of C15 ---------- *)
\* every LF of s is a line ending; it is CRLF iff directly preceded by CR
LfPositions(s) == {i \in 1..Len(s) : s[i] = LF}
AllCrlf(s) == LfPositions(s) # {} /\ \A i \in LfPositions(s) : i > 1 /\ s[i - 1] = CR
HasEmptyLine(s) == LET ls == Lines(s) IN \E k \in 1..Len(ls) : Len(ls[k]) = 0
WidestLine(s) == LET ls == Lines(s) IN Max({0} \cup {DW(ls[k]) : k \in 1..Len(ls)})
=============================================================================
