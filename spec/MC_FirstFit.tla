----------------------------- MODULE MC_FirstFit -----------------------------
(***************************************************************************)
(* Bounded model of wrap_first_fit (wrap_algorithms.rs:336-357).           *)
(* A session appends fragments [w, ws, pw] one at a time (so TLC           *)
(* enumerates every fragment sequence up to MaxN over the given value      *)
(* sets), picks a line-width list, then runs the loop one fragment per     *)
(* step with the loop state (i, start, acc, lines).                        *)
(* Checked: C06 (ordered partition, at every step), C07 (greedy-maximal,   *)
(* declaratively) and refinement of the operator FirstFit; the returned    *)
(* arrangement is judged by Judge_frag of PropsRel.tla.                    *)
(***************************************************************************)
EXTENDS PropsAll, MCChars, Json

CONSTANTS MaxN, Ws, Wss, Pws, WidthLists, MaxLW

\* all width lists of length 0..2 over 0..MaxLW
MCWidthLists == {<<>>} \cup {<<a>> : a \in 0..MaxLW} \cup {<<a, b>> : a \in 0..MaxLW, b \in 0..MaxLW}

VARIABLES fs, pc, lws, i, start, acc, lines
vars == <<fs, pc, lws, i, start, acc, lines>>

Init == fs = <<>> /\ pc = "build" /\ lws = <<>> /\ i = 1 /\ start = 1 /\ acc = 0 /\ lines = <<>>
AddFrag(w, ws, pw) == pc = "build" /\ Len(fs) < MaxN /\ fs' = Append(fs, [w |-> w, ws |-> ws, pw |-> pw])
                      /\ UNCHANGED <<pc, lws, i, start, acc, lines>>
Begin(l) == pc = "build" /\ lws' = l /\ pc' = "loop" /\ UNCHANGED <<fs, i, start, acc, lines>>
FFStep ==
  /\ pc = "loop" /\ i <= Len(fs)
  /\ LET f == fs[i]
         lw == IF HasDev("ff_width_by_fragment") THEN LineW(lws, i - 1) ELSE LineW(lws, Len(lines))
     IN IF FFBreaks(acc, f, lw, i, start)
        THEN lines' = Append(lines, <<start, i - 1>>) /\ start' = i /\ acc' = f.w + f.ws
        ELSE acc' = acc + f.w + f.ws /\ UNCHANGED <<lines, start>>
  /\ i' = i + 1 /\ UNCHANGED <<fs, pc, lws>>
FFEnd == pc = "loop" /\ i > Len(fs) /\ lines' = Append(lines, <<start, Len(fs)>>) /\ pc' = "done"
         /\ UNCHANGED <<fs, lws, i, start, acc>>
Next == (\E w \in Ws, ws \in Wss, pw \in Pws : AddFrag(w, ws, pw)) \/ (\E l \in WidthLists : Begin(l)) \/ FFStep \/ FFEnd
Spec == Init /\ [][Next]_vars /\ WF_vars(FFStep \/ FFEnd)

\* loop invariant: lines emitted so far together with the open run start..i-1 partition 1..i-1
StepInv == pc = "loop" =>
  /\ start <= i /\ (i > 1 => start < i)
  /\ acc = AccW(fs, start, i, 0)
  /\ IF Len(lines) = 0 THEN start = 1 ELSE (lines[Len(lines)][2] = start - 1 /\ IsPartition(lines, start - 1))
Ev == [ev |-> "frag", alg |-> "ff", n |-> Len(fs), fs |-> [j \in 1..Len(fs) |-> <<fs[j].w, fs[j].ws, fs[j].pw>>], lws |-> lws,
       scale |-> 1, pen |-> DefaultPen, exact |-> TRUE, finite |-> TRUE, usz |-> TRUE, raw |-> "",
       shape |-> [j \in 1..Len(lines) |-> <<lines[j][1] - 1, lines[j][2] - lines[j][1] + 1>>], res |-> lines, status |-> "ok"]
AllOk(cs) == \A j \in 1..Len(cs) : cs[j].ok \/ (PrintT(<<"FAILED", cs[j].p, cs[j].c, cs[j].r>>) /\ FALSE)
PropFrag == pc = "done" => AllOk(Judge_frag(Ev))
\* once a call has begun it returns (checked under weak fairness of the step actions: the algorithms terminate)
Terminates == (pc # "build") ~> (pc = "done")
Emit == pc = "done" => PrintT(<<"REPLAY", ToJson([k |-> "frag", alg |-> "ff", fs |-> Ev.fs, lws |-> lws, scale |-> 1, pen |-> DefaultPen])>>)
=============================================================================
