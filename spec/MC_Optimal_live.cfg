SPECIFICATION Spec
CONSTANTS
  W <- MCW
  IsAlnum <- MCAlnum
  IsWs <- MCWs
  Dev = {}
  Sel = {"C03", "C06"}
  MaxN = 2
  Ws = {0, 1, 2, 4}
  Wss = {0, 1}
  Pws = {0}
  MaxLW = 3
  WidthLists <- MCWidthLists12
  PenSets <- MCPens
PROPERTY Terminates
CHECK_DEADLOCK FALSE
