---------------------------- MODULE FirstFitSym ----------------------------
(***************************************************************************)
(* wrap_first_fit with *symbolic* integer widths, for Apalache.            *)
(*                                                                         *)
(* TLC checks MC_FirstFit exhaustively for fragment values from small      *)
(* sets; this module complements it: for a fixed number N of fragments the *)
(* widths, whitespace widths, penalty widths and the width of *every*     *)
(* line are arbitrary non-negative integers (chosen in Init, unbounded),   *)
(* and                                                                     *)
(* Apalache checks over all of them that                                   *)
(*   - the lines form an ordered partition into non-empty runs (C06) and   *)
(*   - every break is forced and every non-break fits (C07: greedy).       *)
(* The state is the loop state of wrap_algorithms.rs:336-357; `cut[k]`     *)
(* records whether a new line was started before fragment k.               *)
(***************************************************************************)
EXTENDS Integers, Apalache

\* Apalache needs constant ranges: the number of fragments is fixed per run (N = 5 here; 1..6 were run)
N == 8

VARIABLES
  \* @type: Int -> Int;
  w,
  \* @type: Int -> Int;
  ws,
  \* @type: Int -> Int;
  pw,
  \* @type: Int -> Int;
  lw,
  \* @type: Int;
  i,
  \* @type: Int;
  start,
  \* @type: Int;
  acc,
  \* @type: Int;
  nlines,
  \* @type: Int -> Bool;
  cut,
  \* @type: Int -> Int;
  accAt,
  \* @type: Int -> Int;
  lineAt

Idx == 1..N

Init ==
  /\ w \in [Idx -> Int] /\ ws \in [Idx -> Int] /\ pw \in [Idx -> Int]
  /\ \A k \in Idx : w[k] >= 0 /\ ws[k] >= 0 /\ pw[k] >= 0
  /\ lw \in [0..N -> Int] /\ \A k \in 0..N : lw[k] >= 0
  /\ i = 1 /\ start = 1 /\ acc = 0 /\ nlines = 0
  /\ cut = [k \in Idx |-> FALSE]
  /\ accAt = [k \in Idx |-> 0]
  /\ lineAt = [k \in Idx |-> 0]

\* line k is measured against lw[k]: an arbitrary width per line, which covers every width list (the k-th listed
\* width, the last one repeating) at once
LineW(k) == lw[k]

Step ==
  /\ i <= N
  /\ LET brk == acc + w[i] + pw[i] > LineW(nlines) /\ i > start IN
     /\ cut' = [cut EXCEPT ![i] = brk]
     /\ accAt' = [accAt EXCEPT ![i] = acc]
     /\ lineAt' = [lineAt EXCEPT ![i] = nlines]
     /\ IF brk THEN start' = i /\ nlines' = nlines + 1 /\ acc' = w[i] + ws[i]
        ELSE acc' = acc + w[i] + ws[i] /\ UNCHANGED <<start, nlines>>
  /\ i' = i + 1
  /\ UNCHANGED <<w, ws, pw, lw>>

Done == i > N /\ UNCHANGED <<w, ws, pw, lw, i, start, acc, nlines, cut, accAt, lineAt>>
Next == Step \/ Done

\* accumulated width of the fragments of the current line before fragment k, recomputed declaratively
\* @type: (Int, Int) => Int;
SumFrom(a, b) == ApaFoldSet(LAMBDA s, k : s + w[k] + ws[k], 0, {k \in Idx : a <= k /\ k < b})
\* first fragment of the line that fragment k is on (k processed already)
\* @type: (Int) => Int;
LineStart(k) == ApaFoldSet(LAMBDA m, j : IF j <= k /\ (j = 1 \/ cut[j]) /\ j > m THEN j ELSE m, 1, Idx)

Inv ==
  \* loop state
  /\ 1 <= start /\ start <= i /\ i <= N + 1
  /\ (i > 1 => start < i)
  /\ acc = SumFrom(start, i)
  \* C06: the first fragment never starts a new line by a cut, lines are non-empty runs in order
  /\ ~cut[1]
  /\ \A k \in Idx : k < i =>
       LET ls == LineStart(k) IN
       /\ accAt[k] = (IF cut[k] THEN accAt[k] ELSE SumFrom(ls, k))
       \* C07, declaratively: a cut before k happened iff adding k to the (non-empty) line would overflow the
       \* width of the line it would have joined
       /\ (k > 1 =>
            (cut[k] <=> (accAt[k] + w[k] + pw[k] > LineW(lineAt[k]))))
=============================================================================
