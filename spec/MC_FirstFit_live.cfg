SPECIFICATION Spec
CONSTANTS
  W <- MCW
  IsAlnum <- MCAlnum
  IsWs <- MCWs
  Dev = {}
  Sel = {"C06", "C07"}
  MaxN = 2
  MaxLW = 3
  Ws = {0, 1, 3}
  Wss = {0, 1}
  Pws = {0, 1}
  WidthLists <- MCWidthLists
PROPERTY Terminates
CHECK_DEADLOCK FALSE
